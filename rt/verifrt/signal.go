package verifrt

import (
	"os"
	"os/signal"
)

func signalNotify(c chan<- os.Signal, sig ...os.Signal) { signal.Notify(c, sig...) }
