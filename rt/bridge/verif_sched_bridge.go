//go:build verif

package readline

// This file is NOT part of the repository: it is supplied through the build overlay of the
// schedule explorer (Engine B). It runs one execution of a scenario under the cooperative
// scheduler of internal/verifrt and reports what happened, as JSON in / JSON out so that the
// harness (another module) needs no types from here.

import (
	"encoding/json"
	"fmt"
	"os"
	"strings"
	"syscall"

	"github.com/reeflective/readline/internal/core"
	"github.com/reeflective/readline/internal/verifrt"
	vt "github.com/reeflective/readline/internal/verifvt"
	"golang.org/x/sys/unix"
)

// VerifSchedSpec describes one execution.
type VerifSchedSpec struct {
	W, H      int
	W2        int // width after a resize
	Prompt    string
	Script    [][]byte // user chunks, delivered at quiescence (or earlier: type-ahead)
	Comps     []string
	Winch     int  // budget of SIGWINCH deliveries
	Printf    int  // budget of concurrent Shell.Printf calls
	TypeAhead bool // user chunks may be delivered before quiescence (each such delivery costs 1)
	Choices   []int
	MasterFD  int // pty master (to change the window size)
	Multiline bool
	Trace     bool // record a readable log of the execution (replays)
}

// VerifSchedResult is what one execution produced.
type VerifSchedResult struct {
	Outcome   string // returned | deadlock | panic | harness-failure
	Line, Err string
	Decisions []verifrt.Decision
	Deadlock  string   `json:",omitempty"`
	Blocked   []string `json:",omitempty"` // threads still parked after Readline returned and nothing was enabled
	Failure   string   `json:",omitempty"`
	Panic     string   `json:",omitempty"`
	// screen oracle at the last wait before the final chunk, when all disturbances had completed by then
	ScreenJudged     bool
	ScreenVerdict    string `json:",omitempty"`
	LastWaitLine     string
	DisturbancesDone bool
	Screen           []string `json:",omitempty"`
	Log              []string `json:",omitempty"`
	// Overlaps names the pairs of roles that were both in the middle of their work at some
	// scheduling point: "main+watcher" = the main loop was doing something else than waiting
	// for input (and forwarding cursor reports) while the resize handler was in progress.
	Overlaps []string `json:",omitempty"`
	// ReportFate: thread name -> what happened to the answer to its LAST cursor-position query
	ReportFate map[string]string `json:",omitempty"`
}

// VerifSchedRun executes one schedule.
func VerifSchedRun(specJSON []byte) []byte {
	var spec VerifSchedSpec
	if err := json.Unmarshal(specJSON, &spec); err != nil {
		b, _ := json.Marshal(&VerifSchedResult{Outcome: "harness-failure", Failure: err.Error()})
		return b
	}
	res := verifSchedRun(&spec)
	b, _ := json.Marshal(res)
	return b
}

func verifSchedRun(spec *VerifSchedSpec) (res *VerifSchedResult) {
	res = &VerifSchedResult{}
	// a session-engine job run earlier by this process leaves its gated reader installed
	core.Stdin = verifrt.Stdin
	setSize := func(w int) {
		ws := &unix.Winsize{Row: uint16(spec.H), Col: uint16(w)}
		unix.IoctlSetWinsize(spec.MasterFD, unix.TIOCSWINSZ, ws)
	}
	setSize(spec.W)
	term := vt.New(spec.W, spec.H)
	term2 := vt.New(spec.W, spec.H)
	term2.LaxEraseAtMargin = true

	sh := NewShell()
	prompt := spec.Prompt
	sh.Prompt.Primary(func() string { return prompt })
	if len(spec.Comps) > 0 {
		vals := spec.Comps
		// a line-dependent completer, as real ones are: only the values that extend the word before the cursor
		sh.Completer = func(line []rune, cursor int) Completions {
			word := string(line[:cursor])
			if k := strings.LastIndexAny(word, " \n"); k >= 0 {
				word = word[k+1:]
			}
			var out []string
			var raw []Completion
			rich := false
			for _, v := range vals {
				// "value|description|tag": a described and/or tagged candidate
				parts := strings.SplitN(v, "|", 3)
				if !strings.HasPrefix(parts[0], word) {
					continue
				}
				out = append(out, parts[0])
				cp := Completion{Value: parts[0]}
				if len(parts) > 1 {
					cp.Description = parts[1]
					rich = true
				}
				if len(parts) > 2 {
					cp.Tag = parts[2]
				}
				raw = append(raw, cp)
			}
			if rich {
				return CompleteRaw(raw)
			}
			return CompleteValues(out...)
		}
	}
	if spec.Multiline {
		sh.AcceptMultiline = func(line []rune) bool { return !strings.HasSuffix(string(line), "\\") }
	}

	s := verifrt.New()
	s.Choices = spec.Choices
	s.Out = func(p []byte) {
		if spec.Trace {
			res.Log = append(res.Log, fmt.Sprintf("#%d %s writes %q", len(s.Decisions), s.CurName(), p))
		}
		term.Write(p)
		term2.Write(p)
	}
	role := func(name string) string {
		switch {
		case name == "main":
			return "main"
		case strings.HasPrefix(name, "printf"):
			return "printf"
		}
		return "watcher"
	}
	// Fate of every cursor-position report: who asked, who consumed the answer. The answers are
	// indistinguishable for the library; the harness tags the bytes of the input queue.
	type query struct{ issuer, fate string }
	var queries []*query
	var tags []int // one per byte of s.Stdin: index in queries, or -1 for user input
	pushInput := func(b []byte, tag int) {
		for len(tags) < len(s.Stdin) {
			tags = append(tags, -1)
		}
		s.Stdin = append(s.Stdin, b...)
		for range b {
			tags = append(tags, tag)
		}
	}
	term.OnDSR = func(row, col int) {
		queries = append(queries, &query{issuer: s.CurName(), fate: "unread"})
		pushInput([]byte(fmt.Sprintf("\x1b[%d;%dR", row, col)), len(queries)-1)
	}
	s.OnRead = func(thread, where string, n int) {
		for i := 0; i < n && i < len(tags); i++ {
			if tags[i] >= 0 {
				queries[tags[i]].fate = "read by " + role(thread) + "@" + where
			}
		}
		if n > len(tags) {
			n = len(tags)
		}
		tags = tags[n:]
		if spec.Trace {
			res.Log = append(res.Log, fmt.Sprintf("#%d %s reads %d byte(s) at %s", len(s.Decisions), thread, n, where))
		}
	}
	overlaps := map[string]bool{}
	var overlapOrder []string // chronological
	s.OnDecision = func() {
		var busy []string
		for _, t := range s.ThreadStates() {
			if t.Done || t.Kind == "" || t.Kind == "start" {
				continue
			}
			switch r := role(t.Name); {
			case r == "main" && strings.Contains(t.Where, "readInputFiltered") && (t.Kind == "read" || t.Kind == "send"):
				// waiting for input, forwarding cursor reports: the state in which the library expects to be disturbed
			case r == "watcher" && t.Kind == "select":
				// idle
			default:
				busy = append(busy, r)
			}
		}
		for i := range busy {
			for j := i + 1; j < len(busy); j++ {
				a, b := busy[i], busy[j]
				if b == "main" || (a != "main" && b < a) {
					a, b = b, a
				}
				if !overlaps[a+"+"+b] {
					overlaps[a+"+"+b] = true
					overlapOrder = append(overlapOrder, a+"+"+b)
					if spec.Trace {
						res.Log = append(res.Log, fmt.Sprintf("#%d OVERLAP %s+%s: %v", len(s.Decisions), a, b, s.ThreadStates()))
					}
				}
			}
		}
	}
	next := 0
	winch, printfs := spec.Winch, spec.Printf
	started := 0
	idle := func() bool {
		// quiescence is computed by the scheduler: this event is offered only when no thread is enabled
		return true
	}
	_ = idle
	promptLast := prompt
	if k := strings.LastIndex(promptLast, "\n"); k >= 0 {
		promptLast = promptLast[k+1:]
	}
	// the "wait" before the final chunk: evaluate the screen oracle there
	s.OnIdle = func() {
		if spec.Trace {
			res.Log = append(res.Log, fmt.Sprintf("#%d WAIT next-chunk=%d line=%q screen=%q cursor=(%d,%d)", len(s.Decisions), next, string(*sh.Line()), term.Snapshot().Lines, term.Snapshot().CY, term.Snapshot().CX))
		}
		if next == len(spec.Script)-1 {
			res.DisturbancesDone = winch == 0 && printfs == 0 && started == spec.Printf
			c := *sh.Cursor()
			line := []rune(string(*sh.Line()))
			res.LastWaitLine = string(line)
			relaxed := sh.Hint.Text() != "" || string(sh.Keymap.Local()) != ""
			v := vt.CheckInput(term, promptLast, line, c.Pos(), relaxed, 5)
			if v == "" {
				// right under both erase-at-margin behaviours, as in the session engine
				v = vt.CheckInput(term2, promptLast, line, c.Pos(), relaxed, 5)
			}
			// what a completed Printf wrote must be on the screen as it was written: one row above
			// the input holding exactly the message (12 rows: nothing scrolls away in these scripts)
			if v == "" && res.DisturbancesDone {
				snap := term.Snapshot()
				for n := 0; n < started; n++ {
					want := fmt.Sprintf("async %d", n)
					found := false
					for y := 0; y < snap.CY && y < len(snap.Lines); y++ {
						if strings.TrimRight(snap.Lines[y], " ") == want {
							found = true
						}
					}
					if !found {
						v = fmt.Sprintf("printf-output: no row above the cursor shows exactly the printed message %q", want)
					}
				}
			}
			res.ScreenJudged = true
			res.ScreenVerdict = v
			res.Screen = term.Snapshot().Lines
		}
	}
	userEnabledAtQuiescenceOnly := !spec.TypeAhead
	s.Env = []*verifrt.EnvEvent{
		{Name: "user-chunk", Cost: 0, Enabled: func() bool { return next < len(spec.Script) && userEnabledAtQuiescenceOnly && s.Quiescent() }, Do: func() {
			pushInput(spec.Script[next], -1)
			next++
		}},
		{Name: "user-typeahead", Cost: 1, Enabled: func() bool { return next < len(spec.Script) && spec.TypeAhead }, Do: func() {
			pushInput(spec.Script[next], -1)
			next++
		}},
		{Name: "winch", Cost: 1, Enabled: func() bool { return winch > 0 && s.Started() }, Do: func() {
			winch--
			w := spec.W2
			if w == 0 {
				w = spec.W
			}
			if spec.Trace {
				res.Log = append(res.Log, fmt.Sprintf("#%d SIGWINCH, width %d", len(s.Decisions), w))
			}
			setSize(w)
			term.Resize(w, spec.H)
			term2.Resize(w, spec.H)
			s.DeliverSignal(syscall.SIGWINCH)
		}},
		{Name: "printf", Cost: 1, Enabled: func() bool { return printfs > 0 && s.Started() }, Do: func() {
			printfs--
			n := started
			started++
			verifrt.Go(func() { sh.Printf("async %d", n) })
			verifrt.NameThread(fmt.Sprintf("printf%d", n))
		}},
	}
	func() {
		defer func() {
			if r := recover(); r != nil {
				res.Outcome = "panic"
				res.Panic = fmt.Sprint(r)
			}
		}()
		s.Run(func() {
			line, err := sh.Readline()
			res.Outcome = "returned"
			res.Line = line
			if err != nil {
				res.Err = err.Error()
			}
		})
	}()
	res.Decisions = s.Decisions
	res.Overlaps = overlapOrder
	// the fate of the last report each thread asked for (by thread name)
	res.ReportFate = map[string]string{}
	for _, q := range queries {
		res.ReportFate[q.issuer] = q.fate
	}
	switch {
	case s.Failure != "" && strings.HasPrefix(s.Failure, "replay divergence"):
		res.Outcome = "harness-failure"
		res.Failure = s.Failure
	case s.Failure != "":
		res.Outcome = "panic"
		res.Panic = s.Failure
	case s.Deadlock != "":
		res.Outcome = "deadlock"
		res.Deadlock = s.Deadlock
	case res.Outcome == "":
		res.Outcome = "harness-failure"
		res.Failure = "main thread did not finish"
	}
	if res.Outcome == "returned" {
		res.Blocked = verifrt.FinalBlocked()
	}
	_ = os.Stdin
	return res
}
