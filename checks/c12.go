package checks

import (
	"errors"
	"fmt"
	"os"
	"runtime/debug"
	"strings"
	"sync"
	"sync/atomic"
	"time"

	"github.com/reeflective/readline/inputrc"
)

// C12 — parsing any inputrc text terminates without crashing.
//
// Exhaustive enumeration of all token strings up to length n over a token alphabet that
// contains every lexical ingredient of the inputrc grammar (directives, quotes,
// backslash escapes, modifiers, conditionals, includes, newlines, NUL, CR, non-ASCII),
// x parser options x handler kinds x an include graph with cycles served by the
// handler. Oracle: Parse returns (nil or an error value), never panics, and asks the
// handler for at most includeBudget files per top-level parse (count-based verdict for
// "recurses without bound": a finite include graph of 4 files needs <= 4).

var c12Tokens = []string{
	"set", " ", "\t", "x", "on", "keymap", "editing-mode", "vi", "\"", "'", "\\", "\\C-", "\\M-", "\\e", "\\x", "\\0",
	"C-", "M-", "Control-", "-", ":", "a", "#", "$if", "$else", "$endif", "$include", "mode=", "term=", "=",
	"é", "\x00", "\r", "\n", "A", "B", "D", "~/x",
}

const includeBudget = 1000

type budgetExceeded struct{}

type c12Opt struct {
	name string
	opts []inputrc.Option
}

var c12Opts = []c12Opt{
	{"none", nil},
	{"strict", []inputrc.Option{inputrc.WithStrict(true)}},
	{"halt", []inputrc.Option{inputrc.WithHaltOnErr(true)}},
	{"strict+halt", []inputrc.Option{inputrc.WithStrict(true), inputrc.WithHaltOnErr(true)}},
	{"app/term/mode", []inputrc.Option{inputrc.WithApp("a"), inputrc.WithTerm("x"), inputrc.WithMode("vi"), inputrc.WithName("n")}},
}

var c12Files = map[string]string{
	"A": "$include A\n",
	"B": "$include C\nset x 1\n",
	"C": "$include B\n",
	"D": "set x 1\n\"a\": vi\n",
}

type c12Result struct {
	class    string
	effects  int
	includes int
}

// c12Parse runs one parse and classifies the outcome; panics become classes.
func c12Parse(input []byte, o c12Opt, typed bool) (res c12Result) {
	cfg := inputrc.NewConfig()
	if typed {
		cfg.Vars["x"] = 0
		cfg.Vars["a"] = false
		cfg.Vars["on"] = ""
		cfg.Vars["keymap"] = "emacs"
		cfg.Vars["editing-mode"] = "emacs"
	}
	reads := 0
	cfg.ReadFileFunc = func(name string) ([]byte, error) {
		reads++
		if reads > includeBudget {
			panic(budgetExceeded{})
		}
		if s, ok := c12Files[name]; ok {
			return []byte(s), nil
		}
		return nil, os.ErrNotExist
	}
	defer func() {
		res.includes = reads
		if r := recover(); r != nil {
			if _, ok := r.(budgetExceeded); ok {
				res.class = "VIOL:include-recursion-unbounded"
				return
			}
			st := string(debug.Stack())
			res.class = "VIOL:panic@" + panicFrame(st, "reeflective/readline") + ":" + panicKind(fmt.Sprint(r))
		}
	}()
	err := inputrc.ParseBytes(input, cfg, o.opts...)
	res.effects = len(cfg.Vars) + len(cfg.Binds)
	if typed {
		res.effects -= 5
	}
	switch {
	case err == nil && res.effects == 0 && reads == 0:
		res.class = "ok/no-effect"
	case err == nil:
		res.class = "ok/effect"
	default:
		var pe *inputrc.ParseError
		if errors.As(err, &pe) {
			res.class = "error/" + fmt.Sprint(pe.Err)
		} else {
			res.class = "error/other"
		}
	}
	return res
}

// panicFrame returns the innermost frame below panic() whose function contains substr.
func panicFrame(stack, substr string) string {
	seen := false
	for _, l := range strings.Split(stack, "\n") {
		if strings.HasPrefix(l, "\t") {
			continue
		}
		if strings.HasPrefix(l, "panic(") {
			seen = true
			continue
		}
		if seen && strings.Contains(l, substr) {
			if k := strings.LastIndex(l, "("); k > 0 {
				l = l[:k]
			}
			return strings.TrimPrefix(l, "github.com/reeflective/readline")
		}
	}
	return "?"
}

// panicKind normalises a panic value to its kind (indices and lengths removed).
func panicKind(s string) string {
	for _, k := range []string{"index out of range", "slice bounds out of range", "nil pointer dereference", "nil map", "divide by zero", "unsupported type"} {
		if strings.Contains(s, k) {
			return strings.ReplaceAll(k, " ", "-")
		}
	}
	if len(s) > 40 {
		s = s[:40]
	}
	return sanitize(s)
}

func init() {
	Register(&Check{ID: "C12", Level: "exploration", Run: runC12, Replay: func(c *Ctx, w *Witness) (string, string) {
		var in struct {
			Input string
			Opt   string
			Typed bool
		}
		jsonUnmarshal(w.Input, &in)
		for _, o := range c12Opts {
			if o.name == in.Opt {
				r := c12Parse([]byte(in.Input), o, in.Typed)
				fp := ""
				if strings.HasPrefix(r.class, "VIOL:") {
					fp = strings.TrimPrefix(r.class, "VIOL:")
				}
				return fmt.Sprintf("input=%q opt=%s typed=%v -> %s (includes=%d)", in.Input, in.Opt, in.Typed, r.class, r.includes), fp
			}
		}
		return "unknown option set", ""
	}})
}

func runC12(c *Ctx) {
	n := 4
	if !c.Quick() {
		n = 5
		c.Deadline = c.Start.Add(40 * time.Minute)
	}
	T := len(c12Tokens)
	c.Rule = fmt.Sprintf("all token strings of length <= %d over %d tokens (%q) x %d option sets x {untyped, typed-vars} handler x include graph {A->A, B->C->B, D finite, missing}; + structured extremes (huge line, deep $if nesting, many $endif). non-trivial = distinct input text for which the parser reported an effect, an include or an error under at least one option set", n, T, c12Tokens, len(c12Opts))
	c.Bounds = map[string]any{"max_tokens": n, "all_10_option_handler_combinations_up_to_tokens": n - 1, "deepest_level_combinations": []string{"none/untyped", "app+term+mode/typed"}, "alphabet_size": T, "include_budget": includeBudget}
	c.Assumptions = []string{"a handler whose Get returns a type other than bool/string/int is excluded (documented programmer error: panic(\"unsupported type\"))"}

	type viol struct {
		fp, input, opt string
		typed          bool
	}
	var mu sync.Mutex
	var evals, nontrivial int64
	outcomes := map[string]int64{}
	viols := map[string]viol{}
	violCount := map[string]int{}
	var samples []any

	// watchdog for non-termination: each shard publishes its current input
	type cur struct {
		input string
		since time.Time
	}
	nshard := 16
	current := make([]atomic.Pointer[cur], nshard)
	done := make(chan struct{})
	go func() {
		for {
			select {
			case <-done:
				return
			case <-time.After(2 * time.Second):
			}
			for i := range current {
				if p := current[i].Load(); p != nil && time.Since(p.since) > 60*time.Second {
					mu.Lock()
					c.Violate(Witness{Fingerprint: "non-termination", What: fmt.Sprintf("parse of %q did not return within 60 s", p.input), Engine: "pure", Input: jsonRaw(map[string]any{"Input": p.input, "Opt": "none"})}, nil)
					c.Evaluations = evals
					code := c.Finish()
					_ = code
					os.Exit(1)
				}
			}
		}
	}()

	depthOf := make([]int, nshard)
	fullDepth := n - 1
	process := func(shard int, input string, local map[string]int64, lv map[string]viol, lvc map[string]int) (ev int64, nt int64) {
		current[shard].Store(&cur{input, time.Now()})
		b := []byte(input)
		interesting := false
		ntok := depthOf[shard]
		for oi, o := range c12Opts {
			for ti, typed := range []bool{false, true} {
				// the deepest level runs under two combinations only (none/untyped
				// and app+term+mode/typed); all shallower levels under all ten
				if ntok >= fullDepth+1 && !((oi == 0 && ti == 0) || (oi == 4 && ti == 1)) {
					continue
				}
				r := c12Parse(b, o, typed)
				ev++
				local[r.class]++
				if r.class != "ok/no-effect" {
					interesting = true
				}
				if strings.HasPrefix(r.class, "VIOL:") {
					fp := strings.TrimPrefix(r.class, "VIOL:")
					lvc[fp]++
					if old, ok := lv[fp]; !ok || len(input) < len(old.input) {
						lv[fp] = viol{fp, input, o.name, typed}
					}
				}
			}
		}
		if interesting {
			nt = 1
		}
		return
	}

	// enumerate: shard on the first token
	var wg sync.WaitGroup
	work := make(chan int, T+1)
	for i := -1; i < T; i++ {
		work <- i
	}
	close(work)
	var expired atomic.Bool
	for s := 0; s < nshard; s++ {
		wg.Add(1)
		go func(s int) {
			defer wg.Done()
			local := map[string]int64{}
			lv := map[string]viol{}
			lvc := map[string]int{}
			var ev, nt int64
			for first := range work {
				if first == -1 {
					e, t := process(s, "", local, lv, lvc)
					ev, nt = ev+e, nt+t
					continue
				}
				// iterative enumeration of suffixes of length 0..n-1
				idx := make([]int, 0, n)
				var rec func(prefix string, depth int)
				rec = func(prefix string, depth int) {
					if expired.Load() {
						return
					}
					depthOf[s] = depth
					e, t := process(s, prefix, local, lv, lvc)
					ev, nt = ev+e, nt+t
					if depth == n {
						return
					}
					for _, tok := range c12Tokens {
						rec(prefix+tok, depth+1)
					}
				}
				_ = idx
				rec(c12Tokens[first], 1)
				if c.Expired() {
					expired.Store(true)
				}
			}
			current[s].Store(nil)
			mu.Lock()
			evals += ev
			nontrivial += nt
			for k, v := range local {
				outcomes[k] += v
			}
			for k, v := range lv {
				if old, ok := viols[k]; !ok || len(v.input) < len(old.input) || (len(v.input) == len(old.input) && v.input < old.input) {
					viols[k] = v
				}
			}
			for k, v := range lvc {
				violCount[k] += v
			}
			mu.Unlock()
		}(s)
	}
	wg.Wait()
	if expired.Load() {
		c.Cap(fmt.Sprintf("internal deadline reached before all strings of length %d were enumerated", n))
	}

	// structured extremes
	extremes := map[string]string{
		"line-1MiB":        "set x " + strings.Repeat("y", 1<<20) + "\n",
		"line-70000-quote": "\"" + strings.Repeat("a", 70000) + "\": x\n",
		"if-nest-10000":    strings.Repeat("$if mode=vi\n", 10000) + "set x 1\n",
		"endif-10000":      strings.Repeat("$endif\n", 10000),
		"else-10000":       "$if a\n" + strings.Repeat("$else\n", 10000) + "$endif\n",
		"include-self":     "$include A\n",
		"include-cycle":    "$include B\n",
		"include-finite":   "$include D\n$include D\n",
		"include-tilde":    "$include ~/x\n",
		"include-in-if":    "$if mode=vi\n$include A\n$endif\n",
		"backslash-end":    "\"\\",
		"set-only":         "set",
		"set-space":        "set ",
		"set-name-only":    "set x",
		"lone-quote":       "\"",
		"lone-modifier":    "C-",
		"meta-ctrl-short":  "\"\\M-\\C-\": x",
		"nul-line":         "\x00\x00\n",
	}
	depthOf[0] = 0
	for name, in := range extremes {
		local := map[string]int64{}
		lv := map[string]viol{}
		lvc := map[string]int{}
		e, t := process(0, in, local, lv, lvc)
		evals += e
		nontrivial += t
		for k, v := range local {
			outcomes["extreme:"+name+":"+k] += v
			outcomes[k] += 0
		}
		for k, v := range lv {
			if _, ok := viols[k]; !ok {
				if len(v.input) > 200 {
					// keep the witness replayable but note its name
					v.input = in
				}
				viols[k] = v
			}
		}
		for k, v := range lvc {
			violCount[k] += v
		}
	}
	current[0].Store(nil)
	close(done)

	c.Evaluations = evals
	c.NontrivialN = nontrivial
	c.Outcomes = outcomes
	for _, s := range []string{"set x", "\"\\C-a\":vi\n", "$if mode=vi\n$include A\n$endif\n"} {
		r := c12Parse([]byte(s), c12Opts[0], false)
		samples = append(samples, map[string]any{"input": s, "outcome": r.class})
	}
	c.Samples = samples
	for fp, v := range viols {
		w := Witness{Fingerprint: fp, Engine: "pure",
			What:  fmt.Sprintf("ParseBytes(%s) with options %s (typed handler=%v): %s [%d parses hit this]", showInput(v.input), v.opt, v.typed, fp, violCount[fp]),
			Input: jsonRaw(map[string]any{"Input": v.input, "Opt": v.opt, "Typed": v.typed})}
		c.Violate(w, nil)
		c.cands[fp].count = violCount[fp]
	}
}

func showInput(s string) string {
	if len(s) > 120 {
		return fmt.Sprintf("%q...[%d bytes]", s[:120], len(s))
	}
	return fmt.Sprintf("%q", s)
}
