package checks

import (
	"fmt"
	"strings"
	"time"

	"verif/internal/harness"
)

// C14 — completion only rewrites the word being completed.
//
// Buffers x every cursor position x candidate tables returned by the harness' completer
// x menu key strings (TAB followed by <= 2 further keys) x {emacs, vi-insert} x options.
// Oracle, at every wait from the first TAB on (B, c = buffer and cursor when completion
// starts; w0 = start of the blank-delimited word before c):
//   - the buffer is B[:j] + X + B[c:] for some j in [w0, c] - the text before the word and
//     the text after the cursor are untouched;
//   - while the menu is active, X is B[j:c] itself, a candidate value that B[j:c] is a
//     prefix of, or a prefix of such a value (common prefix insertion);
//   - after C-c / C-g in an active menu: Readline has not returned, the buffer is B, the
//     cursor is c and the menu is closed.

type c14Table struct {
	name string
	spec *harness.CompSpec
	rc   string
	fold bool
}

func c14Tables(quick bool) []c14Table {
	items := func(vs ...string) []harness.Comp {
		var out []harness.Comp
		for _, v := range vs {
			out = append(out, harness.Comp{Value: v})
		}
		return out
	}
	t := []c14Table{
		{name: "none", spec: &harness.CompSpec{}},
		{name: "one", spec: &harness.CompSpec{Items: items("foobar"), ByWord: true}},
		{name: "two", spec: &harness.CompSpec{Items: items("foo", "foobar"), ByWord: true}},
		{name: "three", spec: &harness.CompSpec{Items: items("foo", "fob", "fox"), ByWord: true}},
		{name: "non-matching", spec: &harness.CompSpec{Items: items("bar")}},
		{name: "described", spec: &harness.CompSpec{Items: []harness.Comp{{Value: "foo", Desc: "first"}, {Value: "fool", Desc: "second"}}, ByWord: true}},
		{name: "nospace-dir", spec: &harness.CompSpec{Items: items("foo/", "fob/"), NoSpace: "/", ByWord: true}},
		{name: "multibyte", spec: &harness.CompSpec{Items: items("éa", "éb", "foo中"), ByWord: true}},
	}
	if !quick {
		t = append(t,
			c14Table{name: "ignore-case", spec: &harness.CompSpec{Items: items("foo", "Foo", "FOB")}, rc: "set completion-ignore-case on\n", fold: true},
			c14Table{name: "aliased", spec: &harness.CompSpec{Items: []harness.Comp{{Value: "foo", Desc: "same"}, {Value: "fob", Desc: "same"}, {Value: "fox", Desc: "other"}}, ByWord: true}},
			c14Table{name: "two-tags", spec: &harness.CompSpec{Items: []harness.Comp{{Value: "foo", Tag: "t1"}, {Value: "fob", Tag: "t2"}, {Value: "fox", Tag: "t2"}}, ByWord: true}},
			c14Table{name: "unfiltered", spec: &harness.CompSpec{Items: items("foo", "bar", "fob")}},
		)
	}
	return t
}

var c14Keys = []struct{ name, bytes string }{
	{"TAB", "\t"}, {"S-TAB", "\x1b[Z"}, {"C-n", "\x0e"}, {"C-p", "\x10"}, {"down", "\x1b[B"}, {"right", "\x1b[C"}, {"C-@", "\x00"},
	{"z", "z"}, {"space", " "}, {"slash", "/"}, {"ESC", "\x1b"}, {"C-c", "\x03"}, {"C-g", "\x07"}, {"backspace", "\x7f"},
}

type c14Case struct {
	buf   string
	back  int // C-b presses after typing the buffer
	table int
	keys  []int // indexes into c14Keys (after the initial TAB)
	mode  string
	opt   string
	pre   string // "" | "same-line": fo TAB TAB SPACE typed first | "previous-call": an earlier Readline call of the same Shell ended with fo TAB TAB Enter
}

// c14Preludes: what the Shell did before the completion under test, besides the two original
// preludes "same-line" and "previous-call" (an accepted candidate). Each leaves the line empty.
var c14Preludes = map[string]struct {
	prior bool // an earlier, complete Readline call (else: earlier keys of the same call)
	keys  []string
}{
	"interrupted-completion-previous-call": {true, []string{"fo", "\t", "\t", "\x03", "\x15", "\r"}},
	"interrupted-completion-same-call":     {false, []string{"fo", "\t", "\t", "\x03", "\x15"}},
	"unmatched-completion-same-call":       {false, []string{"qq", "\t", "\x15"}},
	"aborted-isearch-previous-call":        {true, []string{"abc", "\x12", "\x03", "\r"}},
	"aborted-isearch-same-call":            {false, []string{"abc", "\x12", "\x03", "\x15"}},
	"isearch-with-text-same-call":          {false, []string{"\x12", "q", "\x03", "\x15"}},
}

var c14PreludeNames = []string{"same-line", "previous-call", "interrupted-completion-previous-call", "interrupted-completion-same-call", "unmatched-completion-same-call", "aborted-isearch-previous-call", "aborted-isearch-same-call", "isearch-with-text-same-call"}

func c14Job(id int, cs c14Case, tables []c14Table) (harness.Job, int) {
	t := tables[cs.table]
	rc := modeRC(cs.mode) + "set convert-meta off\nset input-meta on\nset output-meta on\n" + t.rc + cs.opt
	cfg := harness.Config{RC: rc, W: 60, H: 20, Prompt: "$ ", NoHist: true, Comps: t.spec}
	var ans []harness.Answer
	if cs.pre == "same-line" {
		ans = append(ans, Keys("fo", "\t", "\t", " ")...)
	}
	if p, ok := c14Preludes[cs.pre]; ok && !p.prior {
		ans = append(ans, Keys(p.keys...)...)
	}
	if cs.buf != "" {
		ans = append(ans, Key(cs.buf))
	}
	for i := 0; i < cs.back; i++ {
		ans = append(ans, Key("\x02"))
	}
	from := len(ans)
	ans = append(ans, Key("\t"))
	for _, k := range cs.keys {
		ans = append(ans, Key(c14Keys[k].bytes))
	}
	if strings.Contains(cs.pre, "isearch") {
		// an incremental search needs a history to search
		cfg.NoHist = false
		cfg.Hist = []harness.HistSpec{{Kind: "default", Lines: []string{"one", "two q"}}}
	}
	if p, ok := c14Preludes[cs.pre]; ok && p.prior {
		return harness.Job{ID: id, Cfg: cfg, Calls: [][]harness.Answer{Keys(p.keys...), ans}, Want: harness.Want{Obs: 2, From: from}}, from
	}
	if cs.pre == "previous-call" {
		return harness.Job{ID: id, Cfg: cfg, Calls: [][]harness.Answer{Keys("fo", "\t", "\t", "\r"), ans}, Want: harness.Want{Obs: 2, From: from}}, from
	}
	return harness.Job{ID: id, Cfg: cfg, Calls: [][]harness.Answer{ans}, Want: harness.Want{Obs: 2, From: from}}, from
}

func (cs c14Case) desc(tables []c14Table) string {
	var ks []string
	for _, k := range cs.keys {
		ks = append(ks, c14Keys[k].name)
	}
	pre := ""
	if cs.pre != "" {
		pre = " after-an-earlier-completion=" + cs.pre
	}
	return fmt.Sprintf("buffer=%q cursor-from-end=%d candidates=%s keys=TAB %s mode=%s opt=%q%s", cs.buf, cs.back, tables[cs.table].name, strings.Join(ks, " "), cs.mode, strings.TrimSpace(cs.opt), pre)
}

func c14Verdict(cs c14Case, tables []c14Table, t *harness.Trace) (fp, what string, nontrivial bool) {
	call := LastCall(t)
	if call.Outcome == "panic" || call.Outcome == "hung" || call.Outcome == "fatal" || call.Outcome == "spin" {
		return "", "not judged (C01): " + call.Outcome + "@" + call.Site, false
	}
	tab := tables[cs.table]
	if len(call.Waits) == 0 || call.Waits[0].Obs == nil {
		return "", "not judged: no observation", false
	}
	start := call.Waits[0].Obs
	B := []rune(start.Line)
	c := start.Pos
	if (cs.pre != "same-line" && start.Line != cs.buf) || !strings.HasSuffix(start.Line, cs.buf) {
		return "", "not judged: buffer not established", false
	}
	w0 := c
	for w0 > 0 && B[w0-1] != ' ' {
		w0--
	}
	after := string(B[c:])
	d := cs.desc(tables)
	eq := func(a, b string) bool {
		if tab.fold {
			return strings.EqualFold(a, b)
		}
		return a == b
	}
	hasPrefix := func(s, p string) bool {
		if tab.fold {
			return len(s) >= len(p) && strings.EqualFold(s[:len(p)], p)
		}
		return strings.HasPrefix(s, p)
	}
	menuSeen := false
	for i, w := range call.Waits {
		o := w.Obs
		if o == nil || i == 0 {
			continue
		}
		keyName := "TAB"
		if i >= 2 && i-2 < len(cs.keys) {
			keyName = c14Keys[cs.keys[i-2]].name
		}
		if o.Local == "menu-select" {
			menuSeen = true
		}
		// a menu opening again after having been closed is a NEW completion: re-base on the
		// state before the key that opened it
		if o.Local == "menu-select" {
			if prev := call.Waits[i-1].Obs; prev != nil && prev.Local != "menu-select" && i > 1 {
				B = []rune(prev.Line)
				c = prev.Pos
				w0 = c
				for w0 > 0 && B[w0-1] != ' ' {
					w0--
				}
				after = string(B[c:])
			}
		}
		L := []rune(o.Line)
		if keyName == "C-@" {
			// ... but what it accepted is: the candidate that was inserted (everything up to the cursor
			// at the previous wait) is now part of the line and must still be there, as must the text
			// after the cursor
			if prev := call.Waits[i-1].Obs; prev != nil && prev.Local == "menu-select" && prev.Line != string(B) {
				pl := []rune(prev.Line)
				if prev.Pos <= len(pl) && !(strings.HasPrefix(o.Line, string(pl[:prev.Pos])) && strings.HasSuffix(o.Line, after)) {
					return "accept-and-menu-complete-corrupts-the-accepted-candidate", fmt.Sprintf("%s: before key #%d (C-@, accept-and-menu-complete) the buffer was %q with the cursor after the inserted candidate (%d); after it the buffer is %q: the accepted candidate is no longer intact", d, i, prev.Line, prev.Pos, o.Line), true
				}
			}
			// accept-and-menu-complete accepts the candidate and starts a NEW completion in
			// one key: the buffer and cursor at which that one starts are not observable
			return "", "", nontrivial
		}
		// interrupting an active menu (C-g is the emacs abort key; it is an ordinary key in vi-insert)
		if i >= 2 && (keyName == "C-c" || (keyName == "C-g" && cs.mode == "emacs")) {
			prev := call.Waits[i-1].Obs
			if prev != nil && prev.Local == "menu-select" {
				if o.Line != string(B) || o.Pos != c || o.Local == "menu-select" {
					return "interrupt-in-menu-does-not-restore/" + keyName, fmt.Sprintf("%s: after %s in the active menu the buffer is %q cursor %d local=%q (original %q cursor %d)", d, keyName, o.Line, o.Pos, o.Local, string(B), c), true
				}
				continue
			}
		}
		if o.Local != "menu-select" {
			// only the transition that closes the menu is judged (acceptance by typing, ESC,
			// Backspace...): afterwards the keys are ordinary editing
			prev := call.Waits[i-1].Obs
			if prev == nil || prev.Local != "menu-select" {
				continue
			}
			if prev.Line == string(B) && prev.Pos == c {
				// the menu was open without any candidate inserted (menu-complete-display-prefix, or a
				// cancelled selection): the key that closes it is an ordinary edit of the original buffer
				continue
			}
			if !(len(L) >= w0 && string(L[:w0]) == string(B[:w0])) {
				return "text-before-the-word-changed", fmt.Sprintf("%s: after key #%d (%s) the buffer is %q: the text before the completed word %q changed", d, i, keyName, o.Line, string(B[:w0])), true
			}
			if !strings.HasSuffix(o.Line, after) {
				return "text-after-the-cursor-changed", fmt.Sprintf("%s: after key #%d (%s) the buffer is %q: the text after the cursor %q changed", d, i, keyName, o.Line, after), true
			}
			continue
		}
		// menu active: B[:j] + X + B[c:]
		ok := false
		var X string
		for j := w0; j <= c && !ok; j++ {
			if len(L) < j+len(B)-c {
				continue
			}
			if string(L[:j]) != string(B[:j]) || string(L[len(L)-(len(B)-c):]) != after {
				continue
			}
			X = string(L[j : len(L)-(len(B)-c)])
			word := string(B[j:c])
			if eq(X, word) {
				ok = true
				break
			}
			for _, it := range tab.spec.Items {
				v := it.Value
				if !hasPrefix(v, word) {
					continue
				}
				if eq(X, v) || (hasPrefix(v, X) && hasPrefix(X, word)) || eq(X, strings.TrimSuffix(v, "/")) {
					ok = true
					nontrivial = nontrivial || !eq(X, word)
					break
				}
			}
		}
		if !ok {
			kind := "inserted-word-is-not-a-candidate"
			if !(len(L) >= w0 && string(L[:w0]) == string(B[:w0])) {
				kind = "text-before-the-word-changed"
			} else if !strings.HasSuffix(o.Line, after) {
				kind = "text-after-the-cursor-changed"
			}
			return kind, fmt.Sprintf("%s: after key #%d (%s) with the menu active the buffer is %q; original %q, cursor %d (word starts at %d)", d, i, keyName, o.Line, string(B), c, w0), true
		}
	}
	_ = menuSeen
	if call.Outcome == "returned" && len(call.Waits) >= 2 {
		// a menu key string never contains Enter: the call returned at the key answered at the last
		// wait. "Interrupting an active completion menu only cancels the menu ... and the Readline
		// call continues": an interrupt key delivered while the menu keymap is active must not end it
		k := len(call.Waits) - 2
		lw := call.Waits[len(call.Waits)-1].Obs
		if k >= 0 && k < len(cs.keys) && lw != nil && lw.Local == "menu-select" {
			// (the statement names Ctrl-C; C-g is not a menu key: the main keymap's abort runs after the
			// candidate has been accepted, and returns the interrupt)
			if kn := c14Keys[cs.keys[k]].name; kn == "C-c" {
				return "interrupt-in-menu-ends-the-call/" + kn, fmt.Sprintf("%s: %s was delivered while the completion menu was active (buffer %q, cursor %d) and Readline returned (%q, %q) instead of only closing the menu", d, kn, lw.Line, lw.Pos, call.Line, call.Err), true
			}
		}
	}
	return "", "", nontrivial
}

func init() {
	Register(&Check{ID: "C14", Level: "exploration", Run: runC14, Replay: func(c *Ctx, w *Witness) (string, string) {
		var cs struct {
			Buf   string
			Back  int
			Table int
			Keys  []int
			Mode  string
			Opt   string
			Pre   string
			Quick bool
		}
		jsonUnmarshal(w.Input, &cs)
		tables := c14Tables(cs.Quick)
		cc := c14Case{cs.Buf, cs.Back, cs.Table, cs.Keys, cs.Mode, cs.Opt, cs.Pre}
		j, _ := c14Job(0, cc, tables)
		t := c.Pool.RunOne(&j)
		fp, what, _ := c14Verdict(cc, tables, t)
		var lines []string
		for _, wt := range LastCall(t).Waits {
			if wt.Obs != nil {
				lines = append(lines, fmt.Sprintf("%q@%d[%s]", wt.Obs.Line, wt.Obs.Pos, wt.Obs.Local))
			}
		}
		return fmt.Sprintf("%s\nbuffers at waits: %s", what, strings.Join(lines, " ")), fp
	}})
}

func runC14(c *Ctx) {
	quick := c.Quick()
	if quick {
		c.Deadline = c.Start.Add(8 * time.Minute)
	} else {
		c.Deadline = c.Start.Add(60 * time.Minute)
	}
	tables := c14Tables(quick)
	bufs := []string{"", "f", "fo", "foo", "x fo", "x fo y", "\"fo", "x 'a b", "x fo.ba", "é", "x  "}
	opts := []string{""}
	if !quick {
		opts = append(opts, "set menu-complete-display-prefix on\n", "set autocomplete on\n")
	}
	var cases []c14Case
	for _, mode := range []string{"emacs", "vi-insert"} {
		for _, opt := range opts {
			for ti := range tables {
				for _, b := range bufs {
					n := len([]rune(b))
					for back := 0; back <= n; back++ {
						cases = append(cases, c14Case{buf: b, back: back, table: ti, mode: mode, opt: opt})
						for k1 := range c14Keys {
							cases = append(cases, c14Case{buf: b, back: back, table: ti, keys: []int{k1}, mode: mode, opt: opt})
							if quick && (mode != "emacs" || ti%2 == 1) && k1%3 != 0 {
								continue
							}
							for k2 := range c14Keys {
								cases = append(cases, c14Case{buf: b, back: back, table: ti, keys: []int{k1, k2}, mode: mode, opt: opt})
							}
						}
					}
				}
			}
		}
	}
	if quick {
		// quick: the option that opens the menu WITHOUT inserting a candidate, for the interrupt clause
		for _, mode := range []string{"emacs", "vi-insert"} {
			for ti := range tables {
				for _, b := range []string{"fo", "x fo y"} {
					for back := 0; back <= 2 && back <= len(b); back += 2 {
						for _, ks := range [][]int{{11}, {0, 11}, {2, 11}, {11, 0}} {
							cases = append(cases, c14Case{buf: b, back: back, table: ti, keys: ks, mode: mode, opt: "set menu-complete-display-prefix on\n"})
						}
					}
				}
			}
		}
	}
	// the same completions when the Shell has inserted a candidate before (earlier on the line, or in
	// an earlier call): TAB alone and TAB + one key
	for pi, pre := range c14PreludeNames {
		for _, mode := range []string{"emacs", "vi-insert"} {
			if quick && mode == "vi-insert" && pi >= 2 && pre != "interrupted-completion-previous-call" && pre != "aborted-isearch-previous-call" {
				continue
			}
			for ti := range tables {
				if !tables[ti].spec.ByWord {
					continue
				}
				for _, b := range bufs {
					n := len([]rune(b))
					for back := 0; back <= n; back++ {
						cases = append(cases, c14Case{buf: b, back: back, table: ti, mode: mode, pre: pre})
						for k1 := range c14Keys {
							cases = append(cases, c14Case{buf: b, back: back, table: ti, keys: []int{k1}, mode: mode, pre: pre})
							// ... and the interrupt after it (C-c is key 11)
							if k1 != 0 && k1 != 2 && k1 != 4 {
								continue
							}
							cases = append(cases, c14Case{buf: b, back: back, table: ti, keys: []int{k1, 11}, mode: mode, pre: pre})
						}
					}
				}
			}
		}
	}
	var tn []string
	for _, t := range tables {
		tn = append(tn, t.name)
	}
	c.Rule = fmt.Sprintf("(+ the TAB and TAB+1 key cases again after %d kinds of earlier activity of the same Shell %v: a completion accepted / interrupted / without match, an incremental search aborted, earlier on the line or in a previous call) %d buffers x every cursor position x %d candidate tables %v x key strings TAB + <= 2 of %d menu keys x {emacs, vi-insert} x %d option sets; buffers observed at every wait from the first TAB. non-trivial = distinct cases in which a candidate (or common prefix) was actually inserted", len(c14PreludeNames), c14PreludeNames, len(bufs), len(tables), tn, len(c14Keys), len(opts))
	c.Bounds = map[string]any{"buffers": bufs, "tables": tn, "keys": len(c14Keys), "max_keys_after_TAB": 2, "cases": len(cases)}
	c.Assumptions = []string{"the word being completed starts at or after the last blank before the cursor", "after the menu closes, later typed keys edit the line: only 'text before the word' and 'text after the cursor' are judged there"}
	next := 0
	gen := func() (harness.Job, bool) {
		if next >= len(cases) || (next%8192 == 0 && c.Expired()) {
			return harness.Job{}, false
		}
		j, _ := c14Job(next, cases[next], tables)
		next++
		return j, true
	}
	c.Pool.Stream(gen, func(j *harness.Job, t *harness.Trace) {
		cs := cases[j.ID]
		c.Evaluations++
		if t.Err != "" {
			c.HarnessError(t.Err)
			return
		}
		fp, what, non := c14Verdict(cs, tables, t)
		if non {
			c.NontrivialN++
		}
		if c.Evaluations%9001 == 5 {
			var lines []string
			for _, wt := range LastCall(t).Waits {
				if wt.Obs != nil {
					lines = append(lines, fmt.Sprintf("%q@%d[%s]", wt.Obs.Line, wt.Obs.Pos, wt.Obs.Local))
				}
			}
			c.Sample(map[string]any{"case": cs.desc(tables), "buffers_at_waits": lines})
		}
		if fp == "" {
			if strings.HasPrefix(what, "not judged") {
				k := strings.SplitN(what, "@", 2)[0]
				c.Outcome(k)
				if c.Outcomes[k] == 1 {
					c.Sample(map[string]any{"not_judged": what, "case": cs.desc(tables)})
				}
			} else if non {
				c.Outcome("ok/candidate-inserted")
			} else {
				c.Outcome("ok/nothing-inserted")
			}
			return
		}
		c.Outcome(fp)
		if cd, ok := c.cands[fp]; ok {
			cd.count++
			return
		}
		jj := *j
		c.Violate(Witness{Fingerprint: fp, What: what, Engine: "session", Job: &jj,
			Input: jsonRaw(map[string]any{"Buf": cs.buf, "Back": cs.back, "Table": cs.table, "Keys": cs.keys, "Mode": cs.mode, "Opt": cs.opt, "Pre": cs.pre, "Quick": quick})}, func() string {
			f, _, _ := c14Verdict(cs, tables, c.Pool.RunOne(&jj))
			return f
		})
	})
	if next < len(cases) {
		c.Cap(fmt.Sprintf("internal deadline: %d of %d cases run", next, len(cases)))
	}
}
