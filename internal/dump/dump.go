// Package dump produces a canonical, generic (no field names hard-coded) serialisation
// of an arbitrary Go object graph by reflection. It is used as the *state key* of the
// explicit-state searches: two object graphs with the same dump have the same data in
// every field (including unexported ones), the same aliasing between pointers and the
// same slice lengths; funcs, channels and mutexes are reduced to nil/non-nil, and
// time.Time values are skipped (non-deterministic, not editor state).
package dump

import (
	"crypto/sha256"
	"encoding/binary"
	"fmt"
	"hash"
	"reflect"
	"sort"
	"sync"
	"time"
)

var timeType = reflect.TypeOf(time.Time{})

type walker struct {
	h     hash.Hash
	out   []byte
	ptrs  map[uintptr]int
	buf   [8]byte
	nodes int
	// Skip lets the caller exclude struct fields by "pkgpath.Type.field".
	skip map[string]bool
}

// Hash returns the canonical hash of v and the number of nodes visited.
func Hash(v any, skip map[string]bool) ([32]byte, int) {
	bp := bufPool.Get().(*[]byte)
	w := &walker{out: (*bp)[:0], ptrs: map[uintptr]int{}, skip: skip}
	w.walk(reflect.ValueOf(v), 0)
	out := sha256.Sum256(w.out)
	*bp = w.out
	bufPool.Put(bp)
	return out, w.nodes
}

var bufPool = sync.Pool{New: func() any { b := make([]byte, 0, 1<<18); return &b }}

var typeNames sync.Map // reflect.Type -> string

func typeName(t reflect.Type) string {
	if s, ok := typeNames.Load(t); ok {
		return s.(string)
	}
	s := t.String()
	typeNames.Store(t, s)
	return s
}

func (w *walker) tag(s string) { w.out = append(w.out, s...) }
func (w *walker) u64(x uint64) {
	w.out = binary.LittleEndian.AppendUint64(w.out, x)
}

func (w *walker) walk(v reflect.Value, depth int) {
	w.nodes++
	if depth > 200 {
		w.tag("<deep>")
		return
	}
	if !v.IsValid() {
		w.tag("<invalid>")
		return
	}
	t := v.Type()
	switch v.Kind() {
	case reflect.Bool:
		if v.Bool() {
			w.tag("T")
		} else {
			w.tag("F")
		}
	case reflect.Int, reflect.Int8, reflect.Int16, reflect.Int32, reflect.Int64:
		w.tag("i")
		w.u64(uint64(v.Int()))
	case reflect.Uint, reflect.Uint8, reflect.Uint16, reflect.Uint32, reflect.Uint64, reflect.Uintptr:
		w.tag("u")
		w.u64(v.Uint())
	case reflect.Float32, reflect.Float64:
		w.tag("f")
		w.tag(fmt.Sprint(v.Float()))
	case reflect.Complex64, reflect.Complex128:
		w.tag("c")
		w.tag(fmt.Sprint(v.Complex()))
	case reflect.String:
		w.tag("s")
		w.u64(uint64(v.Len()))
		w.tag(v.String())
	case reflect.Func:
		if v.IsNil() {
			w.tag("fn0")
		} else {
			w.tag("fn1")
		}
	case reflect.Chan:
		if v.IsNil() {
			w.tag("ch0")
		} else {
			w.tag("ch1")
		}
	case reflect.UnsafePointer:
		w.tag("up")
	case reflect.Interface:
		if v.IsNil() {
			w.tag("if0")
			return
		}
		e := v.Elem()
		w.tag("if:")
		w.tag(typeName(e.Type()))
		w.walk(e, depth+1)
	case reflect.Ptr:
		if v.IsNil() {
			w.tag("p0")
			return
		}
		p := v.Pointer()
		if id, ok := w.ptrs[p]; ok {
			w.tag("p@")
			w.u64(uint64(id))
			return
		}
		w.ptrs[p] = len(w.ptrs) + 1
		w.tag("p{")
		w.walk(v.Elem(), depth+1)
		w.tag("}")
	case reflect.Struct:
		if t == timeType {
			w.tag("time")
			return
		}
		if t.PkgPath() == "sync" || t.PkgPath() == "sync/atomic" {
			w.tag("sync")
			return
		}
		w.tag("st:")
		w.tag(typeName(t))
		w.tag("{")
		for i := 0; i < v.NumField(); i++ {
			if len(w.skip) > 0 && w.skip[typeName(t)+"."+t.Field(i).Name] {
				continue
			}
			w.walk(v.Field(i), depth+1)
		}
		w.tag("}")
	case reflect.Array:
		w.tag("ar")
		w.u64(uint64(v.Len()))
		for i := 0; i < v.Len(); i++ {
			w.walk(v.Index(i), depth+1)
		}
	case reflect.Slice:
		if v.IsNil() {
			w.tag("sl0")
			return
		}
		w.tag("sl")
		w.u64(uint64(v.Len()))
		switch t.Elem().Kind() {
		case reflect.Uint8:
			w.out = append(w.out, v.Bytes()...)
		case reflect.Int32:
			for i := 0; i < v.Len(); i++ {
				w.u64(uint64(v.Index(i).Int()))
			}
		default:
			for i := 0; i < v.Len(); i++ {
				w.walk(v.Index(i), depth+1)
			}
		}
	case reflect.Map:
		if v.IsNil() {
			w.tag("m0")
			return
		}
		p := v.Pointer()
		if id, ok := w.ptrs[p]; ok {
			w.tag("m@")
			w.u64(uint64(id))
			return
		}
		w.ptrs[p] = len(w.ptrs) + 1
		w.tag("m")
		w.u64(uint64(v.Len()))
		// Canonical order: sort entries by a digest of the key alone (keys are
		// unique and, in this code base, never contain pointers), then walk
		// key and value with the main walker so that pointer ids are assigned
		// deterministically.
		if t.Key().Kind() == reflect.String {
			// fast path: sort the key strings, look the values up in order
			keys := make([]string, 0, v.Len())
			it := v.MapRange()
			for it.Next() {
				keys = append(keys, it.Key().String())
			}
			sort.Strings(keys)
			kt := t.Key()
			for _, k := range keys {
				w.tag("k")
				w.u64(uint64(len(k)))
				w.tag(k)
				w.tag("=>")
				kv := reflect.ValueOf(k)
				if kv.Type() != kt {
					kv = kv.Convert(kt)
				}
				w.walk(v.MapIndex(kv), depth+1)
			}
			return
		}
		type ent struct {
			d [32]byte
			k reflect.Value
		}
		ents := make([]ent, 0, v.Len())
		it := v.MapRange()
		for it.Next() {
			sub := &walker{ptrs: map[uintptr]int{}, skip: w.skip}
			sub.walk(it.Key(), depth+1)
			d := sha256.Sum256(sub.out)
			ents = append(ents, ent{d, it.Key()})
		}
		sort.Slice(ents, func(i, j int) bool {
			for k := 0; k < 32; k++ {
				if ents[i].d[k] != ents[j].d[k] {
					return ents[i].d[k] < ents[j].d[k]
				}
			}
			return false
		})
		for _, e := range ents {
			w.out = append(w.out, e.d[:]...)
			w.tag("=>")
			w.walk(v.MapIndex(e.k), depth+1)
		}
	default:
		w.tag("?" + typeName(t))
	}
}
