package checks

import (
	"fmt"
	"os"
	"sort"
	"strings"

	"github.com/reeflective/readline"
	"github.com/reeflective/readline/inputrc"

	"verif/internal/harness"
)

// Action is one transition label of the explicit-state search: usually one key chunk.
type Action struct {
	Name string
	Ans  []harness.Answer
}

// Act builds a one-chunk action.
func Act(name, keys string) Action { return Action{Name: name, Ans: Keys(keys)} }

// Seed is a start state reached by a typed preamble (reachable by construction).
type Seed struct {
	Name string
	Pre  []harness.Answer
}

// Scenario is one search configuration.
type Scenario struct {
	Name     string
	Cfg      harness.Config
	Seeds    []Seed
	Alphabet []Action
	Depth    int
	Faults   bool // add fault transitions in every reached state
	Want     harness.Want
	// Check is called for every executed transition (serialised). path is the list of
	// action names from the seed; t is the full trace; parentIdx is the index in
	// LastCall(t).Waits of the parent state's wait (-1 if not recorded).
	Check func(sc *Scenario, seed *Seed, path []string, act *Action, job *harness.Job, t *harness.Trace)
	// MaxStates caps the frontier per level (0 = unlimited); hitting it is reported.
	MaxStates int
	// Enabled (optional) restricts which actions are explored from a state, given the
	// observation recorded at that state (needs Want.Obs >= 1).
	Enabled func(parent *harness.Obs, act *Action) bool
	// WholePath records every wait from the end of the seed preamble (path-level oracles).
	WholePath bool
	// OnState (optional) is called for every new state with the path reaching it.
	OnState func(path []Action)
}

type bfsState struct {
	seed *Seed
	path []Action
	hash string
	obs  *harness.Obs
}

func pathNames(p []Action) []string {
	out := make([]string, len(p))
	for i, a := range p {
		out[i] = a.Name
	}
	return out
}

func buildAnswers(seed *Seed, path []Action, extra ...harness.Answer) []harness.Answer {
	var ans []harness.Answer
	ans = append(ans, seed.Pre...)
	for _, a := range path {
		ans = append(ans, a.Ans...)
	}
	ans = append(ans, extra...)
	return ans
}

var faultKinds = []string{"eof", "eof-forever", "eio", "eio-forever"}

// BFS runs a level-synchronous explicit-state search over the real implementation.
// A successor is computed by replaying the shortest path to its parent on a fresh Shell
// and delivering one more action; the parent's state hash must be reproduced (a
// divergence is a harness error, never a violation).
func (c *Ctx) BFS(sc *Scenario) {
	seen := map[string]bool{}
	var frontier []bfsState
	want := sc.Want
	if want.Hash == 0 {
		want.Hash = 2
	}

	// level 0: the seeds themselves
	var jobs []harness.Job
	for i := range sc.Seeds {
		s := &sc.Seeds[i]
		w := want
		w.From = len(s.Pre)
		jobs = append(jobs, harness.Job{ID: i, Cfg: sc.Cfg, Calls: [][]harness.Answer{buildAnswers(s, nil)}, Want: w})
	}
	c.Pool.Map(jobs, func(j *harness.Job, t *harness.Trace) {
		s := &sc.Seeds[j.ID]
		c.Traces++
		if t.Err != "" {
			c.HarnessError(sc.Name + "/" + s.Name + ": " + t.Err)
			return
		}
		call := LastCall(t)
		if sc.Check != nil {
			sc.Check(sc, s, nil, &Action{Name: "<seed>"}, j, t)
		}
		if call.Outcome != "aborted" || len(call.Waits) == 0 {
			return // the seed itself ended the call or failed: reported by Check
		}
		h := call.Waits[len(call.Waits)-1].Hash
		if !seen[h] {
			seen[h] = true
			c.States++
			frontier = append(frontier, bfsState{seed: s, hash: h, obs: call.Waits[len(call.Waits)-1].Obs})
			if sc.OnState != nil {
				sc.OnState(nil)
			}
		}
	})
	sort.Slice(frontier, func(i, j int) bool { return frontier[i].seed.Name < frontier[j].seed.Name })

	for depth := 0; depth < sc.Depth && len(frontier) > 0; depth++ {
		if c.Expired() {
			c.Cap(fmt.Sprintf("%s: internal deadline reached before level %d", sc.Name, depth+1))
			break
		}
		if sc.MaxStates > 0 && len(frontier) > sc.MaxStates {
			c.Cap(fmt.Sprintf("%s: frontier of level %d truncated from %d to %d states", sc.Name, depth, len(frontier), sc.MaxStates))
			frontier = frontier[:sc.MaxStates]
		}
		type meta struct {
			st    *bfsState
			act   *Action
			fault string
		}
		var metas []meta
		jobs = jobs[:0]
		for si := range frontier {
			st := &frontier[si]
			base := len(st.seed.Pre)
			for _, a := range st.path {
				base += len(a.Ans)
			}
			for ai := range sc.Alphabet {
				a := &sc.Alphabet[ai]
				if sc.Enabled != nil && !sc.Enabled(st.obs, a) {
					continue
				}
				w := want
				w.From = base
				if sc.WholePath {
					w.From = len(st.seed.Pre)
				}
				jobs = append(jobs, harness.Job{ID: len(jobs), Cfg: sc.Cfg, Calls: [][]harness.Answer{buildAnswers(st.seed, st.path, a.Ans...)}, Want: w})
				metas = append(metas, meta{st: st, act: a})
			}
			if sc.Faults {
				for _, f := range faultKinds {
					w := want
					w.From = base
					extra := []harness.Answer{{Fault: f}}
					if f == "eof" || f == "eio" {
						extra = append(extra, Key("a"), Key("\r"))
					}
					jobs = append(jobs, harness.Job{ID: len(jobs), Cfg: sc.Cfg, Calls: [][]harness.Answer{buildAnswers(st.seed, st.path, extra...)}, Want: w})
					metas = append(metas, meta{st: st, act: &Action{Name: "<" + f + ">", Ans: extra}, fault: f})
				}
			}
		}
		var next []bfsState
		c.Pool.Map(jobs, func(j *harness.Job, t *harness.Trace) {
			m := metas[j.ID]
			c.Transitions++
			c.Traces++
			c.noteSlow(t.Micros, func() string {
				return fmt.Sprintf("%s: seed %s path %v then %s", sc.Name, m.st.seed.Name, pathNames(m.st.path), m.act.Name)
			})
			if t.Err != "" {
				c.HarnessError(sc.Name + ": " + t.Err)
				return
			}
			call := LastCall(t)
			// replay validation: the parent's hash must be reproduced
			pidx := 0
			if sc.WholePath {
				pidx = 0
				for _, a := range m.st.path {
					pidx += len(a.Ans)
				}
			}
			if len(call.Waits) > pidx && call.Waits[pidx].Hash != m.st.hash {
				c.HarnessError(fmt.Sprintf("%s: replay divergence at %s/%v (parent hash %s, replay gave %s)", sc.Name, m.st.seed.Name, pathNames(m.st.path), m.st.hash, call.Waits[pidx].Hash))
				return
			}
			if sc.Check != nil {
				sc.Check(sc, m.st.seed, pathNames(m.st.path), m.act, j, t)
			}
			if m.fault != "" || call.Outcome != "aborted" || len(call.Waits) == 0 {
				return
			}
			h := call.Waits[len(call.Waits)-1].Hash
			if !seen[h] {
				seen[h] = true
				c.States++
				np := append(append([]Action{}, m.st.path...), *m.act)
				next = append(next, bfsState{seed: m.st.seed, path: np, hash: h, obs: call.Waits[len(call.Waits)-1].Obs})
				if sc.OnState != nil {
					sc.OnState(np)
				}
			}
		})
		// deterministic order of the next frontier (shortest-first is inherent)
		sort.Slice(next, func(i, j int) bool {
			a, b := next[i], next[j]
			if a.seed.Name != b.seed.Name {
				return a.seed.Name < b.seed.Name
			}
			return strings.Join(pathNames(a.path), "\x00") < strings.Join(pathNames(b.path), "\x00")
		})
		frontier = next
	}
}

// --- alphabet derivation from the configuration under test ---

// keyBytes converts a stored bind sequence to the bytes a terminal sends for it
// (meta-encoded runes 0x80-0xff become ESC-prefixed, as with convert-meta on).
func keyBytes(seq string) string {
	var sb strings.Builder
	for _, r := range seq {
		if r >= 0x80 && r <= 0xff {
			sb.WriteByte(0x1b)
			sb.WriteByte(byte(r & 0x7f))
			continue
		}
		sb.WriteRune(r)
	}
	return sb.String()
}

// driverBinds returns the bind tables of a Shell built in the driver process under the
// given inputrc text (the library adds its own tables on top of the inputrc defaults).
func driverBinds(c *Ctx, rc string) map[string]map[string]inputrc.Bind {
	path := c.Scratch + "/driver-rc"
	os.WriteFile(path, []byte(rc), 0o644)
	os.Setenv("INPUTRC", path)
	os.Setenv("HOME", "/nonexistent")
	sh := readline.NewShell()
	out := map[string]map[string]inputrc.Bind{}
	for km, m := range sh.Config.Binds {
		out[km] = map[string]inputrc.Bind{}
		for k, v := range m {
			out[km][k] = v
		}
	}
	return out
}

// keymapActions derives the action alphabet of one keymap: every sequence of every
// action that has at most 4 sequences, and the 2 smallest sequences of the others
// (self-insert, digit-argument, do-lowercase-version have dozens).
func keymapActions(binds map[string]inputrc.Bind) []Action {
	byAct := map[string][]string{}
	for seq, b := range binds {
		name := b.Action
		if b.Macro {
			name = "macro:" + b.Action
		}
		byAct[name] = append(byAct[name], keyBytes(seq))
	}
	var names []string
	for n := range byAct {
		names = append(names, n)
	}
	sort.Strings(names)
	var out []Action
	for _, n := range names {
		seqs := byAct[n]
		sort.Slice(seqs, func(i, j int) bool {
			if len(seqs[i]) != len(seqs[j]) {
				return len(seqs[i]) < len(seqs[j])
			}
			return seqs[i] < seqs[j]
		})
		if len(seqs) > 4 {
			seqs = seqs[:2]
		}
		for _, k := range seqs {
			out = append(out, Act(fmt.Sprintf("%s[%q]", n, k), k))
		}
	}
	return out
}

var allCommandsCache []string

// allCommands lists every command registered by the library (built in the driver
// process from a Shell that never runs).
func allCommands() []string {
	if allCommandsCache != nil {
		return allCommandsCache
	}
	os.Setenv("INPUTRC", os.DevNull)
	sh := readline.NewShell()
	for n := range sh.Keymap.Commands() {
		allCommandsCache = append(allCommandsCache, n)
	}
	sort.Strings(allCommandsCache)
	return allCommandsCache
}

// probeSeq is the unique sequence the generated inputrc binds command #i to.
func probeSeq(i int) string {
	return "\x18\x1d" + string(rune('a'+i/26)) + string(rune('a'+i%26))
}

// allBoundRC returns an inputrc text binding every registered command to a probe
// sequence in the given keymap, and the corresponding actions.
func allBoundRC(keymap string) (string, []Action) {
	var sb strings.Builder
	fmt.Fprintf(&sb, "set keymap %s\n", keymap)
	var acts []Action
	for i, n := range allCommands() {
		fmt.Fprintf(&sb, "\"%s\": %s\n", inputrc.Escape(probeSeq(i)), n)
		acts = append(acts, Act("cmd:"+n, probeSeq(i)))
	}
	return sb.String(), acts
}

// dataKeys are plain characters delivered as keys.
func dataKeys(unicode bool) []Action {
	ks := []string{"a", "Z", "0", " ", ".", "\"", "'", "\\", "(", ")", "\t"}
	if unicode {
		ks = append(ks, "é", "中", "́", "😀")
	}
	var out []Action
	for _, k := range ks {
		out = append(out, Act(fmt.Sprintf("key:%q", k), k))
	}
	// bytes bound to nothing
	out = append(out, Act("key:unbound-csi", "\x1b[99~"), Act("key:0x80", "\x80"), Act("key:nul", "\x00"))
	// bytes shaped like a cursor position report that nobody asked for (a late answer to an
	// earlier program's query, a paste): the key reader treats that shape specially
	out = append(out, Act("key:unsolicited-cursor-report", "\x1b[5;5R"), Act("key:report-glued-to-keys", "a\x1b[12;40Rb"))
	return out
}

func mergeActions(lists ...[]Action) []Action {
	seen := map[string]bool{}
	var out []Action
	for _, l := range lists {
		for _, a := range l {
			k := ""
			for _, x := range a.Ans {
				k += string(x.Bytes) + "\x00"
			}
			if seen[k] {
				continue
			}
			seen[k] = true
			out = append(out, a)
		}
	}
	return out
}

type slowJob struct {
	Micros int64
	What   string
}

// noteSlow keeps the slowest executions (reported in the evidence; useful for sizing).
func (c *Ctx) noteSlow(us int64, what func() string) {
	c.TotalMicros += us
	if len(c.Slow) < 8 || us > c.Slow[len(c.Slow)-1].Micros {
		c.Slow = append(c.Slow, slowJob{us, what()})
		sort.Slice(c.Slow, func(i, j int) bool { return c.Slow[i].Micros > c.Slow[j].Micros })
		if len(c.Slow) > 8 {
			c.Slow = c.Slow[:8]
		}
	}
}

// plantedSeeds builds, for every buffer and cursor position, a harness-registered
// command that plants exactly that state (Line().Set / Cursor().Set), bound in keymap km,
// and the seeds that invoke them. enter is typed first (e.g. ESC for vi command mode).
func plantedSeeds(km string, bufs []string, enter []harness.Answer) (rc string, probes []harness.Probe, seeds []Seed) {
	var sb strings.Builder
	fmt.Fprintf(&sb, "set keymap %s\n", km)
	i := 0
	for _, b := range bufs {
		n := len([]rune(b))
		for pos := 0; pos <= n; pos++ {
			seq := "\x18\x1dP" + string(rune('a'+i/26)) + string(rune('a'+i%26))
			name := fmt.Sprintf("verif-plant-%d", i)
			fmt.Fprintf(&sb, "\"%s\": %s\n", inputrc.Escape(seq), name)
			probes = append(probes, harness.Probe{Name: name, Kind: "seed", Arg: b, Pos: pos})
			pre := append(append([]harness.Answer{}, enter...), Key(seq))
			seeds = append(seeds, Seed{Name: fmt.Sprintf("planted(%q,%d)", b, pos), Pre: pre})
			i++
		}
	}
	if i > 26*26 {
		panic("too many planted states")
	}
	return sb.String(), probes, seeds
}
