#!/bin/sh
# Run once after a fresh restore, offline: warms the build cache and builds vcheck
# (session/pure engines) and vcheck-b (schedule engine, instrumented overlay build).
set -e
cd "$(dirname "$0")"
export GOFLAGS=-mod=mod GOPROXY=off
mkdir -p bin evidence replays
go build -tags verif -o bin/vcheck ./cmd/vcheck
./build_b.sh
(cd /repo && go build ./... && go vet -tags verif . >/dev/null 2>&1 || true)
echo "setup ok"
