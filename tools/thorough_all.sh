#!/bin/sh
# Development-time: runs the thorough tier of the listed checks one after the other (default: all),
# one summary line each in .scratch/thorough_all.log, full logs in .scratch/thorough_<ID>.log
cd "$(dirname "$0")/.."
ids="${*:-C02 C03 C04 C05 C06 C07 C08 C09 C10 C11 C12 C13 C14 C15 C16 C17 C18 C19 C01 C20}"
for id in $ids; do
  ./run.sh $id thorough > .scratch/thorough_$id.log 2>&1
  echo "$id exit=$? $(tail -1 .scratch/thorough_$id.log | cut -c1-200) violations=$(grep -c '^VIOLATION' .scratch/thorough_$id.log) inconclusive=$(grep -c '^INCONCLUSIVE' .scratch/thorough_$id.log)" >> .scratch/thorough_all.log
done
