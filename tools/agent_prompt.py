#!/usr/bin/env python3
"""usage: tools/agent_prompt.py <PROP> [batch-tag]  -> prints the prompt given to a seeding sub-agent.
The prompt contains only the property's text and the rules; nothing about /verif."""
import json, sys
pid = sys.argv[1]
tag = sys.argv[2] if len(sys.argv) > 2 else "b5"
p = next(json.loads(l) for l in open('/verif/properties.jsonl') if json.loads(l)['id'] == pid)
print(f"""You are helping to test a verification effort for the Go library reeflective/readline (a pure-Go readline line editor).
You work ONLY inside the scratch git worktree /tmp/wt-{pid}-{tag} (a checkout of the library). Do not read or write anything under /verif or /repo, and do not look at any other /tmp directory.
Every go command needs: export GOFLAGS=-mod=mod GOPROXY=off   (do NOT set GOTOOLCHAIN or GOSUMDB; there is no network).

Here is a semantic property of the library that should hold:

  Title: {p['title']}
  Statement: {p['statement']}
  Quantified over: {p['quantifier']['text']}
  Anchored in: {json.dumps(p['anchors'])}

Your task: produce TWO different, independent, realistic changes ("m1" and "m2") to the library's non-test source code, each of which
  * breaks this property (the library then really misbehaves with respect to the statement above),
  * still compiles (`go build ./...`) and still passes the existing test suite unedited (`go test ./...`),
  * looks like a plausible slip or a plausible well-meant refactoring/optimisation a maintainer could make (a few lines; no sabotage such as explicit panics, magic input comparisons, sleeps or random numbers),
  * needs something SPECIFIC to manifest: a multi-step sequence of operations, an unusual input or configuration, a particular earlier state (e.g. a second Readline call on the same Shell, a non-empty kill ring, a history position, a pending argument), a particular chunking/fault/interleaving, or two cooperating sites that each look fine alone. NOT something that ordinary use (typing a word and pressing Enter) would expose at once.
  * is different in mechanism from the obvious ones: avoid a plain off-by-one in the most central function of the property; prefer rarely exercised branches, state carried between commands or calls, caches, option-dependent paths, interactions between two features.

For each change also write a demonstration: a Go test file (package of your choice inside the module, file name ending in _test.go, test function names starting with TestSeed) that PASSES on the unmodified tree and FAILS with your change applied. The test may drive the library any way you like (internal package APIs directly, or a Shell through a pty if you manage to). Keep it deterministic.

Deliver, for each of m1 and m2, a directory /tmp/seed-{pid}-{tag}/m1 (resp. m2) containing:
  patch.diff   - `git diff` of the library change only (no test files), applying to the worktree's HEAD with `git apply`
  <name>_test.go - the demonstration (state in its first comment line which directory of the module it belongs in; its `package` clause must match)
  notes.md     - which function/site you changed, why it breaks the property, and exactly what it needs in order to manifest (keys, state, configuration)
Before delivering, verify yourself: with the patch applied `go build ./... && go test ./...` pass (without your demo) and the demo fails; with the patch reverted (`git checkout -- .`) the demo passes. Leave the worktree clean (no patch applied, no demo file left) when you finish.
If, while reading the code, you notice behaviour of the UNMODIFIED library that already seems to violate the property, mention it briefly at the end of your final answer (input that triggers it, what happens) - but do not spend time on it.
Your final answer: a short summary of m1 and m2 (site, trigger) plus any such remark.""")
