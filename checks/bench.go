package checks

import (
	"fmt"
	"time"

	"verif/internal/harness"
)

func init() {
	Register(&Check{ID: "BENCH", Level: "other", Run: func(c *Ctx) {
		rcAll, _ := allBoundRC("emacs")
		for _, v := range []struct {
			name string
			rc   string
			want harness.Want
		}{
			{"plain/no-obs", "", harness.Want{}},
			{"plain/hash2", "", harness.Want{Hash: 2, From: 2}},
			{"allbound/no-obs", rcAll, harness.Want{}},
			{"allbound/hash2", rcAll, harness.Want{Hash: 2, From: 2}},
			{"allbound/hash2+obs2", rcAll, harness.Want{Hash: 2, Obs: 2, From: 2}},
		} {
			var jobs []harness.Job
			for i := 0; i < 3200; i++ {
				jobs = append(jobs, harness.Job{ID: i, Cfg: harness.Config{RC: v.rc, W: 40, H: 12, Prompt: "$ "}, Calls: [][]harness.Answer{Keys("foo bar", "\x02", "\x1bf")}, Want: v.want})
			}
			st := time.Now()
			c.Pool.Map(jobs, func(j *harness.Job, t *harness.Trace) {})
			d := time.Since(st)
			fmt.Printf("%-22s %d jobs in %.2fs = %.0f/s (%.2f ms per job per worker)\n", v.name, len(jobs), d.Seconds(), float64(len(jobs))/d.Seconds(), d.Seconds()*1000*16/float64(len(jobs)))
		}
		c.Evaluations = 1
	}})
}
