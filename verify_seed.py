#!/usr/bin/env python3
"""usage: verify_seed.py <PROP> <mN> <check-result-note> [source-dir]
Confirms in a scratch worktree that the demo of /tmp/seed-PROP/mN fails with the patch and passes
without it, then stores the seed under /verif/seeded/PROP-mN/ with meta.json."""
import sys, os, re, subprocess, json, shutil, glob
prop, m, note = sys.argv[1], sys.argv[2], sys.argv[3]
src = sys.argv[4] if len(sys.argv) > 4 else f"/tmp/seed-{prop}/{m}"
wt = f"/tmp/vs-{prop}-{m}"
env = dict(os.environ, GOFLAGS="-mod=mod", GOPROXY="off")
def sh(cmd, cwd=None):
    return subprocess.run(cmd, shell=True, cwd=cwd, env=env, capture_output=True, text=True)
sh(f"git -C /repo worktree remove --force {wt}")
r = sh(f"git -C /repo worktree add -q --detach {wt} HEAD"); assert r.returncode == 0, r.stderr
pkgdirs = {"readline": ".", "readline_test": ".", "history": "internal/history", "inputrc": "inputrc", "inputrc_test": "inputrc", "core": "internal/core", "keymap": "internal/keymap",
           "completion": "internal/completion", "display": "internal/display", "macro": "internal/macro", "editor": "internal/editor", "strutil": "internal/strutil", "ui": "internal/ui", "term": "internal/term"}
demos = [f for f in glob.glob(src + "/*_test.go")]
placed = []
tests = {}
for d in demos:
    txt = open(d).read()
    pkg = re.search(r"^package (\w+)", txt, re.M).group(1)
    pd = pkgdirs[pkg]
    dst = os.path.join(wt, pd, "zz_seed_" + os.path.basename(d))
    shutil.copy(d, dst); placed.append(dst)
    tests.setdefault(pd, []).extend(re.findall(r"^func (Test\w+)\(", txt, re.M))
def run_demos():
    ok = True; out = ""
    for pd, ts in tests.items():
        r = sh(f"go test -vet=off -count=1 -run '^({'|'.join(ts)})$' ./{pd}/", cwd=wt)
        out += r.stdout[-1500:] + r.stderr[-500:]
        ok = ok and r.returncode == 0
    return ok, out
clean_ok, clean_out = run_demos()
r = sh(f"git apply --3way {src}/patch.diff", cwd=wt)
applied = r.returncode == 0
for p in placed: os.rename(p, p + ".off")
build = sh("go build ./... && go vet -tags verif . ", cwd=wt).returncode == 0 if applied else False
suite = sh("go test -vet=off -count=1 ./...", cwd=wt) if applied else None
for p in placed: os.rename(p + ".off", p)
mut_ok, mut_out = run_demos() if applied else (None, "")
sh(f"git -C /repo worktree remove --force {wt}")
res = {"applies": applied, "builds": build, "repo_suite_passes_with_change": bool(suite and suite.returncode == 0),
       "demo_passes_without_change": clean_ok, "demo_fails_with_change": (mut_ok is False)}
print(json.dumps(res))
good = all(res.values())
if not good:
    print("NOT KEPT"); print(clean_out[-800:]); print(mut_out[-800:]); sys.exit(1)
dst = f"/verif/seeded/{prop}-{m}"
os.makedirs(dst, exist_ok=True)
shutil.copy(src + "/patch.diff", dst)
for d in demos: shutil.copy(d, dst)
if os.path.exists(src + "/notes.md"): shutil.copy(src + "/notes.md", dst)
notes = open(src + "/notes.md").read() if os.path.exists(src + "/notes.md") else ""
meta = {"property": prop, "id": f"{prop}-{m}", "breaks": prop,
        "needs_to_manifest": "see notes.md (written by the independent sub-agent that produced the change)",
        "confirmed_in_scratch_worktree": res,
        "what_i_ran": [f"git apply --3way patch.diff in a scratch worktree of /repo HEAD", "go build ./... && go vet -tags verif .", "go test -vet=off -count=1 ./... (existing suite, demo excluded): pass",
                       "demo tests without the change: pass; with the change: fail", f"./mutant_test.sh seeded/{prop}-{m}/patch.diff <check> (applies to /repo, runs the check, undoes it)"],
        "detected_by": note}
json.dump(meta, open(dst + "/meta.json", "w"), indent=1)
print("KEPT", dst)
