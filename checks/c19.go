package checks

import (
	"fmt"
	"sort"
	"strings"
	"unicode"

	"github.com/reeflective/readline/inputrc"
)

// C19 — key-sequence notation and configuration dumps round-trip.
//
// (a) exhaustive: every sequence of length 1 and 2 over runes 0x00-0xFF plus printable
//     Unicode representatives, and every sequence of length 3 over the runes that take
//     a special branch of the escaper; both Escape and EscapeMacro.
// (b) every key sequence of every default keymap (and every macro body, if any).
// (c) dump round trip through the real dump commands (see c19dump.go).
//
// Oracle (a,b): Unescape(Escape(s)) == s and Unescape(EscapeMacro(s)) == s.

var c19Special = []rune{0x00, 0x01, 0x07, 0x08, 0x09, 0x0a, 0x0d, 0x1b, 0x1c, 0x1f, 0x7f, '\\', '"', '\'', 0x80, 0x9b, 0x9f, 0xa0, 0xad, 0xdc, 0xff, '-', 'C', 'M', 'x', '0', 'a', 'e'}

func c19Alphabet() []rune {
	var rs []rune
	for r := rune(0); r <= 0xff; r++ {
		rs = append(rs, r)
	}
	// printable Unicode representatives (BMP, wide, astral, combining is not IsPrint-graphic but is printable text)
	rs = append(rs, 0x3bb, 0x4e2d, 0x1f600, 0x20ac, 0x416, 0xff21)
	return rs
}

func c19Class(r rune) string {
	switch {
	case r == 0x1b:
		return "esc"
	case r == 0x7f:
		return "del"
	case r < 0x20:
		return "ctrl"
	case r == '\\' || r == '"' || r == '\'':
		return "quote"
	case r < 0x80:
		return "ascii"
	case r < 0xa0:
		return "meta-ctrl"
	case r == 0xff:
		return "meta-del"
	case r <= 0xff:
		return "meta"
	}
	return "unicode"
}

func c19Fails(s string) (which, what string) {
	e := inputrc.Escape(s)
	if u := inputrc.Unescape(e); u != s {
		return "escape-roundtrip", fmt.Sprintf("s=%q Escape=%q Unescape(Escape)=%q", s, e, u)
	}
	m := inputrc.EscapeMacro(s)
	if u := inputrc.Unescape(m); u != s {
		return "escapemacro-roundtrip", fmt.Sprintf("s=%q EscapeMacro=%q Unescape(EscapeMacro)=%q", s, m, u)
	}
	return "", ""
}

// c19Verdict: the fingerprint names the rune classes of the shortest failing
// contiguous sub-sequence, so that one defect yields one fingerprint.
func c19Verdict(s string) (fp, what string) {
	which, what := c19Fails(s)
	if which == "" {
		return "", ""
	}
	rs := []rune(s)
	for l := 1; l <= len(rs); l++ {
		for i := 0; i+l <= len(rs); i++ {
			if w, _ := c19Fails(string(rs[i : i+l])); w != "" {
				var ks []string
				for _, r := range rs[i : i+l] {
					ks = append(ks, c19Class(r))
				}
				return w + "/" + strings.Join(ks, ","), what
			}
		}
	}
	return which + "/?", what
}

func init() {
	Register(&Check{ID: "C19", Level: "exploration", Run: runC19, Replay: func(c *Ctx, w *Witness) (string, string) {
		if w.Engine == "session" {
			return c19DumpReplay(c, w)
		}
		var in struct{ S string }
		jsonUnmarshal(w.Input, &in)
		fp, what := c19Verdict(in.S)
		return what, fp
	}})
}

func runC19(c *Ctx) {
	alpha := c19Alphabet()
	c.Rule = fmt.Sprintf("(a) all sequences of length 1 and 2 over %d runes (0x00-0xFF + printable Unicode representatives) and of length 3 over %d special-branch runes, Escape and EscapeMacro; (b) every key of every default keymap; (c) dump round trip through dump-functions/-variables/-macros on configurations built from generated inputrc files. non-trivial = distinct sequence whose escaped form differs from the sequence itself (an escape was needed)", len(alpha), len(c19Special))
	c.Bounds = map[string]any{"len1_len2_alphabet": len(alpha), "len3_alphabet": len(c19Special)}
	c.Assumptions = []string{"printable Unicode beyond U+00FF is represented by 6 runes (BMP, CJK wide, astral, currency, Cyrillic, full-width); non-printable runes above U+00FF are outside the statement's quantifier"}
	best := map[string]string{}
	bestWhat := map[string]string{}
	counts := map[string]int{}
	check := func(s string) {
		c.Evaluations++
		if inputrc.Escape(s) != s {
			c.NontrivialN++
		}
		fp, what := c19Verdict(s)
		if fp == "" {
			return
		}
		c.Outcome(fp)
		counts[fp]++
		if old, ok := best[fp]; !ok || len(s) < len(old) {
			best[fp], bestWhat[fp] = s, what
		}
	}
	for _, a := range alpha {
		check(string(a))
	}
	for _, a := range alpha {
		for _, b := range alpha {
			check(string([]rune{a, b}))
		}
	}
	for _, a := range c19Special {
		for _, b := range c19Special {
			for _, d := range c19Special {
				check(string([]rune{a, b, d}))
			}
		}
	}
	// (b) default keymaps
	nkeys := 0
	for km, binds := range inputrc.DefaultBinds() {
		for seq, b := range binds {
			nkeys++
			check(seq)
			if b.Macro {
				check(b.Action)
			}
			_ = km
		}
	}
	c.Bounds["default_keymap_sequences"] = nkeys
	c.Sample(map[string]any{"s": "\x1b[A", "Escape": inputrc.Escape("\x1b[A"), "roundtrip": inputrc.Unescape(inputrc.Escape("\x1b[A"))})
	c.Sample(map[string]any{"s": "\x81\\", "Escape": inputrc.Escape("\x81\\"), "EscapeMacro": inputrc.EscapeMacro("\u0081\\")})
	c.Outcome("ok")

	var fps []string
	for fp := range best {
		fps = append(fps, fp)
	}
	sort.Strings(fps)
	for _, fp := range fps {
		c.Violate(Witness{Fingerprint: fp, Engine: "pure", What: fmt.Sprintf("%s [%d sequences]", bestWhat[fp], counts[fp]), Input: jsonRaw(map[string]string{"S": best[fp]})}, nil)
		c.cands[fp].count = counts[fp]
	}

	// (c) dumps through the real commands
	runC19Dumps(c)
	_ = unicode.IsPrint
}
