package checks

import (
	"fmt"
	"strings"
	"time"

	"verif/internal/harness"
)

// C18 — replaying a keyboard macro equals retyping its keys.
//
// All key scripts K of <= n keys over an alphabet of printable, control, ESC-prefixed,
// CSI (arrow) and quoted-insert keys x start buffers, in the Emacs style
// (C-x ( K C-x ) C-x e) and the Vi style (q a K q @ a), compared with typing K twice.
// Oracle (differential, no hand-written expectation): final (buffer, cursor) equal.

type c18Key struct{ name, bytes string }

var c18Emacs = []c18Key{
	{"a", "a"}, {"space", " "}, {"dquote", "\""}, {"backslash", "\\"},
	{"C-a", "\x01"}, {"C-b", "\x02"}, {"C-e", "\x05"}, {"C-k", "\x0b"}, {"C-d", "\x04"}, {"C-t", "\x14"}, {"C-y", "\x19"}, {"C-w", "\x17"},
	{"M-f", "\x1bf"}, {"M-b", "\x1bb"}, {"M-d", "\x1bd"}, {"M-u", "\x1bu"},
	{"left", "\x1b[D"}, {"right", "\x1b[C"}, {"C-v C-a", "\x16\x01"}, {"M-2", "\x1b2"},
	// an upper-case meta key (runs the binding of the lower-case one by feeding it back), and a command
	// that reads its own keys until ESC (overwrite-mode); NUL separates the reads
	{"M-F", "\x1bF"}, {"C-x C-o X ESC", "\x18\x0f\x00X\x00\x1b"},
}

var c18Vi = []c18Key{
	{"h", "h"}, {"l", "l"}, {"x", "x"}, {"w", "w"}, {"b", "b"}, {"dw", "dw"}, {"i z ESC", "iz\x1b"}, {"A y ESC", "Ay\x1b"},
	{"~", "~"}, {"0", "0"}, {"$", "$"}, {"r q", "rq"}, {"p", "p"}, {"C-a", "\x01"}, {"f o", "fo"}, {"2", "2"}, {"cw X ESC", "cwX\x1b"}, {"D", "D"}, {"u", "u"},
	{"i backslash ESC", "i\\\x1b"}, {"i dquote ESC", "i\"\x1b"}, {"r backslash", "r\\"},
	{"R X ESC", "RX\x1b"}, {"d i dquote", "di\""}, {"f dquote", "f\""},
}

// second bytes of the ESC-prefixed sequences bound in vi-insert (filled by runC18)
var c18ViMetaSecond = map[byte]bool{}

var c18Starts = []string{"", "foo bar", "a\"b", "x \"ab\" y \"cd\" z"}

type c18Case struct {
	mode  string
	start string
	keys  []c18Key
}

func (cs c18Case) String() string {
	var ns []string
	for _, k := range cs.keys {
		ns = append(ns, k.name)
	}
	return fmt.Sprintf("mode=%s start=%q K=[%s]", cs.mode, cs.start, strings.Join(ns, ", "))
}

// chunks: every byte of a vi composite key is its own read (typed), emacs keys are one
// chunk each (a terminal sends an escape sequence in one write).
func c18Chunks(mode string, k c18Key) []string {
	if mode == "vi" {
		var out []string
		for _, r := range k.bytes {
			out = append(out, string(r))
		}
		return out
	}
	if k.name == "C-v C-a" {
		return []string{"\x16", "\x01"}
	}
	if strings.Contains(k.bytes, "\x00") {
		return strings.Split(k.bytes, "\x00")
	}
	return []string{k.bytes}
}

func c18Jobs(cs c18Case) (typed, macro harness.Job) {
	rc := modeRC(cs.mode)
	cfg := harness.Config{RC: rc, W: 80, H: 24, Prompt: "> ", NoHist: true}
	var pre []string
	if cs.start != "" {
		pre = append(pre, cs.start)
	}
	if cs.mode == "vi" {
		pre = append(pre, "\x1b", "0")
	}
	var k []string
	for _, key := range cs.keys {
		k = append(k, c18Chunks(cs.mode, key)...)
	}
	s1 := append(append(append([]string{}, pre...), k...), k...)
	var s2 []string
	if cs.mode == "vi" {
		s2 = append(append(append(append([]string{}, pre...), "q", "a"), k...), "q", "@", "a")
	} else {
		s2 = append(append(append(append([]string{}, pre...), "\x18("), k...), "\x18)", "\x18e")
	}
	typed = harness.Job{ID: 0, Cfg: cfg, Calls: [][]harness.Answer{Keys(s1...)}, Want: harness.Want{Obs: 1}}
	macro = harness.Job{ID: 1, Cfg: cfg, Calls: [][]harness.Answer{Keys(s2...)}, Want: harness.Want{Obs: 1}}
	return
}

func c18Verdict(cs c18Case, t1, t2 *harness.Trace) (fp, what string, nontrivial bool) {
	c1, c2 := LastCall(t1), LastCall(t2)
	if c1.Outcome != "aborted" || c2.Outcome != "aborted" {
		return "", fmt.Sprintf("not judged (C01 / call ended): %s@%s / %s@%s", c1.Outcome, c1.Site, c2.Outcome, c2.Site), false
	}
	_, o1 := lastObs(t1)
	_, o2 := lastObs(t2)
	if o1 == nil || o2 == nil {
		return "", "not judged: no observation", false
	}
	if o1.Kind != "main" || o2.Kind != "main" {
		return "", "not judged: script ends inside an argument wait", false
	}
	nontrivial = o1.Line != cs.start
	if o2.MacroRec {
		return "", "not judged: the end-of-macro key was consumed as an argument of the script's last command", false
	}
	if o1.Line != o2.Line || o1.Pos != o2.Pos {
		cls := "printable"
		for _, k := range cs.keys {
			switch {
			case strings.HasPrefix(k.bytes, "\x1b["):
				cls = "csi"
			case strings.HasPrefix(k.bytes, "\x1b") && cls != "csi":
				cls = "esc-prefixed"
			case len(k.bytes) > 0 && k.bytes[0] < 0x20 && cls == "printable":
				cls = "control"
			}
		}
		if cs.mode != "vi" {
			// known class: an upper-case meta key runs the lower-case one by feeding its keys back to the
			// dispatcher; while a macro is being recorded both the typed and the fed keys are recorded
			for _, k := range cs.keys {
				if len(k.bytes) == 2 && k.bytes[0] == 0x1b && k.bytes[1] >= 'A' && k.bytes[1] <= 'Z' {
					cls = "upper-case-meta-key-recorded-with-the-keys-it-feeds-back"
				}
			}
		}
		if cs.mode == "vi" {
			cls = "vi"
			for _, k := range cs.keys {
				if strings.Contains(k.bytes, "\x1b") {
					cls = "vi+esc"
				}
				if k.bytes[0] < 0x20 {
					cls = "vi+control"
				}
			}
			// known class: a recorded lone ESC immediately followed by a key k such that
			// ESC k is itself a bound (or prefix of a bound) sequence of vi-insert: on
			// replay the two arrive together and cannot be told from the meta sequence
			var all string
			for _, k := range cs.keys {
				all += k.bytes
			}
			for i := 0; i+1 < len(all); i++ {
				if all[i] == 0x1b && c18ViMetaSecond[all[i+1]] {
					cls = "vi-lone-esc-glued-to-bound-meta-key"
				}
			}
		}
		return "macro-replay-differs/" + cls, fmt.Sprintf("%s: typing K twice gives %q cursor %d, recording and replaying gives %q cursor %d", cs, o1.Line, o1.Pos, o2.Line, o2.Pos), true
	}
	return "", "", nontrivial
}

func init() {
	Register(&Check{ID: "C18", Level: "exploration", Run: runC18, Replay: func(c *Ctx, w *Witness) (string, string) {
		var in struct {
			Mode, Start string
			Keys        []string
		}
		jsonUnmarshal(w.Input, &in)
		cs := c18Case{mode: in.Mode, start: in.Start}
		all := c18Emacs
		if in.Mode == "vi" {
			all = c18Vi
		}
		for _, n := range in.Keys {
			for _, k := range all {
				if k.name == n {
					cs.keys = append(cs.keys, k)
				}
			}
		}
		for seq := range driverBinds(c, "set editing-mode vi\n")["vi-insert"] {
			if k := keyBytes(seq); len(k) >= 2 && k[0] == 0x1b {
				c18ViMetaSecond[k[1]] = true
			}
		}
		j1, j2 := c18Jobs(cs)
		t1, t2 := c.Pool.RunOne(&j1), c.Pool.RunOne(&j2)
		fp, what, _ := c18Verdict(cs, t1, t2)
		return fmt.Sprintf("%s\ntyped keys: %s\nmacro keys: %s", what, ShowKeys(j1.Calls[0]), ShowKeys(j2.Calls[0])), fp
	}})
}

func runC18(c *Ctx) {
	n := 2
	if !c.Quick() {
		n = 3
		c.Deadline = c.Start.Add(40 * time.Minute)
	}
	c.Rule = fmt.Sprintf("all key scripts K of 1..%d keys over %d emacs keys / %d vi keys x %d start buffers; S1 = K K typed, S2 = record K, stop, replay; final (buffer, cursor) compared. non-trivial = distinct scripts whose typed execution changed the buffer", n, len(c18Emacs), len(c18Vi), len(c18Starts))
	c.Bounds = map[string]any{"max_keys": n, "emacs_keys": len(c18Emacs), "vi_keys": len(c18Vi), "start_buffers": c18Starts}
	for seq := range driverBinds(c, "set editing-mode vi\n")["vi-insert"] {
		if k := keyBytes(seq); len(k) >= 2 && k[0] == 0x1b {
			c18ViMetaSecond[k[1]] = true
		}
	}
	var cases []c18Case
	var rec func(mode string, all []c18Key, start string, prefix []c18Key, d int)
	rec = func(mode string, all []c18Key, start string, prefix []c18Key, d int) {
		// a script ending in a numeric argument is not comparable: the argument would
		// apply to the next K in S1 and to the end-of-macro key in S2
		// (a 0 typed after the digit extends the argument: "2 0" is still a pending argument)
		last := len(prefix) - 1
		for last > 0 && prefix[last].name == "0" {
			last--
		}
		endsInArg := len(prefix) > 0 && (prefix[last].name == "M-2" || prefix[last].name == "2")
		if len(prefix) > 0 && !endsInArg {
			cases = append(cases, c18Case{mode: mode, start: start, keys: append([]c18Key{}, prefix...)})
		}
		if d == n {
			return
		}
		for _, k := range all {
			rec(mode, all, start, append(prefix, k), d+1)
		}
	}
	for _, st := range c18Starts {
		rec("emacs", c18Emacs, st, nil, 0)
		rec("vi", c18Vi, st, nil, 0)
	}
	// shortest scripts first
	pending := map[int]*harness.Trace{}
	next := 0
	gen := func() (harness.Job, bool) {
		if next >= 2*len(cases) || (next%4096 == 0 && c.Expired()) {
			return harness.Job{}, false
		}
		j1, j2 := c18Jobs(cases[next/2])
		j := j1
		if next%2 == 1 {
			j = j2
		}
		j.ID = next
		next++
		return j, true
	}
	c.Pool.Stream(gen, func(j *harness.Job, t *harness.Trace) {
		if t.Err != "" {
			c.HarnessError(t.Err)
			return
		}
		other, ok := pending[j.ID^1]
		if !ok {
			pending[j.ID] = t
			return
		}
		delete(pending, j.ID^1)
		t1, t2 := t, other
		if j.ID%2 == 1 {
			t1, t2 = other, t
		}
		cs := cases[j.ID/2]
		c.Evaluations++
		fp, what, non := c18Verdict(cs, t1, t2)
		if non {
			c.NontrivialN++
		}
		if c.Evaluations%997 == 3 {
			if _, o1 := lastObs(t1); o1 != nil {
				c.Sample(map[string]any{"case": cs.String(), "final_buffer": o1.Line, "final_cursor": o1.Pos})
			}
		}
		if fp == "" {
			if strings.HasPrefix(what, "not judged") {
				k := what
				if i := strings.Index(k, ":"); i > 0 {
					k = k[:i]
				}
				c.Outcome(k)
			} else {
				c.Outcome("ok")
			}
			return
		}
		c.Outcome(fp)
		if cd, ok := c.cands[fp]; ok {
			cd.count++
			return
		}
		var names []string
		for _, k := range cs.keys {
			names = append(names, k.name)
		}
		c.Violate(Witness{Fingerprint: fp, What: what, Engine: "session",
			Input: jsonRaw(map[string]any{"Mode": cs.mode, "Start": cs.start, "Keys": names})}, func() string {
			j1, j2 := c18Jobs(cs)
			f, _, _ := c18Verdict(cs, c.Pool.RunOne(&j1), c.Pool.RunOne(&j2))
			return f
		})
	})
	if next < 2*len(cases) {
		c.Cap(fmt.Sprintf("internal deadline: %d of %d cases run", next/2, len(cases)))
	}
}
