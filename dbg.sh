#!/bin/sh
# usage: RC='set editing-mode vi\n' ./dbg.sh key1 key2 ...   (keys with Go escapes, e.g. '\x1b' 'a')
cd "$(dirname "$0")"
VERIF_DBG_RC="$RC" VERIF_DBG_KEYS="$*" ./bin/vcheck DBG quick | grep -v "^DBG quick"
