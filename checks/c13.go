package checks

import (
	"fmt"
	"os"
	"runtime/debug"
	"sort"
	"strings"
	"sync"
	"time"

	"github.com/reeflective/readline/inputrc"
)

// C13 — inputrc directives apply iff all enclosing conditions hold.
//
// Enumerates every program of a grammar ($if mode=/term=/app, $else, $endif, nesting
// <= 3, set keymap, set var (string/int/bool), key-name and quoted-sequence binds,
// macros, comments, $include) with at most n statements, under every (mode, term, app)
// setting, parses it with the real parser into a fresh Config and compares Binds and
// Vars with a reference evaluator written here (a directive is active iff every
// enclosing block's branch is the taken one).

type c13Stmt struct {
	Kind string // bindf bindm setstr setint setkm comment include if
	Arg  string // keymap / include file / condition
	Then []c13Stmt
	Else []c13Stmt
	HasE bool
}

var c13Conds = []string{"mode=emacs", "mode=vi", "term=xterm", "term=vt100", "foo", "Bar"}

// notations with an unambiguous documented meaning, and the sequence they denote
var c13Keys = []struct{ text, seq string }{
	{`"\C-a"`, "\x01"}, {`"ab"`, "ab"}, {`"\e[A"`, "\x1b[A"}, {`Control-b`, "\x02"}, {`"\\"`, "\\"}, {`TAB`, "\t"}, {`"\C-?"`, "\x7f"}, {`x`, "x"},
}

// c13KeyIdx: the i-th bind uses the i-th notation, except "same-key" binds which all use
// notation 0 (so that re-binding one key, function <-> macro, is enumerated).
func c13KeyIdx(s c13Stmt, id int) int {
	if s.Arg == "same-key" {
		return 0
	}
	return 1 + id%(len(c13Keys)-1)
}

var c13Leaves = []c13Stmt{
	{Kind: "bindf"}, {Kind: "bindm"}, {Kind: "bindf", Arg: "same-key"}, {Kind: "bindm", Arg: "same-key"}, {Kind: "setstr"}, {Kind: "setint"},
	{Kind: "setkm", Arg: "vi-command"}, {Kind: "setkm", Arg: "vi-insert"}, {Kind: "setkm", Arg: "emacs-meta"},
	{Kind: "comment"}, {Kind: "include", Arg: "f0"},
}

// include targets: variables and conditionals only (keymap scoping across files is
// not specified by the statement, so included files contain no binds / set keymap).
var c13Includes = map[string][]c13Stmt{
	"f0": {
		{Kind: "setstr"},
		{Kind: "if", Arg: "mode=vi", Then: []c13Stmt{{Kind: "setint"}}, HasE: true, Else: []c13Stmt{{Kind: "if", Arg: "Bar", Then: []c13Stmt{{Kind: "setstr"}}}}},
	},
}

// c13Gen enumerates all statement lists of total size exactly `size` with nesting <= depth.
func c13Gen(size, depth int, memo map[[2]int][][]c13Stmt) [][]c13Stmt {
	key := [2]int{size, depth}
	if r, ok := memo[key]; ok {
		return r
	}
	var out [][]c13Stmt
	if size == 0 {
		out = [][]c13Stmt{nil}
		memo[key] = out
		return out
	}
	// first statement of size s1, rest of size size-s1
	for s1 := 1; s1 <= size; s1++ {
		firsts := c13GenStmt(s1, depth, memo)
		rests := c13Gen(size-s1, depth, memo)
		for _, f := range firsts {
			for _, r := range rests {
				p := make([]c13Stmt, 0, 1+len(r))
				p = append(p, f)
				p = append(p, r...)
				out = append(out, p)
			}
		}
	}
	memo[key] = out
	return out
}

func c13GenStmt(size, depth int, memo map[[2]int][][]c13Stmt) []c13Stmt {
	var out []c13Stmt
	if size == 1 {
		out = append(out, c13Leaves...)
	}
	if depth == 0 {
		return out
	}
	body := size - 1
	for _, cond := range c13Conds {
		for _, th := range c13Gen(body, depth-1, memo) {
			out = append(out, c13Stmt{Kind: "if", Arg: cond, Then: th})
		}
		for a := 0; a <= body; a++ {
			for _, th := range c13Gen(a, depth-1, memo) {
				for _, el := range c13Gen(body-a, depth-1, memo) {
					out = append(out, c13Stmt{Kind: "if", Arg: cond, Then: th, Else: el, HasE: true})
				}
			}
		}
	}
	return out
}

// c13Print renders a program; directive ids are assigned in textual order.
func c13Print(p []c13Stmt, id *int, sb *strings.Builder, indent string) {
	for _, s := range p {
		switch s.Kind {
		case "bindf":
			*id++
			fmt.Fprintf(sb, "%s%s: cmd%d\n", indent, c13Keys[c13KeyIdx(s, *id)].text, *id)
		case "bindm":
			*id++
			fmt.Fprintf(sb, "%s%s: \"m%d\"\n", indent, c13Keys[c13KeyIdx(s, *id)].text, *id)
		case "setstr":
			*id++
			fmt.Fprintf(sb, "%sset var%d val%dvx\n", indent, *id, *id) // a value whose first character occurs again
		case "setint":
			*id++
			fmt.Fprintf(sb, "%sset num%d %d\n", indent, *id, *id%10)
		case "setkm":
			*id++
			fmt.Fprintf(sb, "%sset keymap %s\n", indent, s.Arg)
		case "comment":
			fmt.Fprintf(sb, "%s# a comment: set c 1\n", indent)
		case "include":
			fmt.Fprintf(sb, "%s$include %s\n", indent, s.Arg)
		case "if":
			fmt.Fprintf(sb, "%s$if %s\n", indent, s.Arg)
			c13Print(s.Then, id, sb, indent+"  ")
			if s.HasE {
				fmt.Fprintf(sb, "%s$else\n", indent)
				c13Print(s.Else, id, sb, indent+"  ")
			}
			fmt.Fprintf(sb, "%s$endif\n", indent)
		}
	}
}

type c13Setting struct{ mode, term, app string }

func (st c13Setting) cond(c string) bool {
	switch {
	case strings.HasPrefix(c, "mode="):
		return c[5:] == st.mode
	case strings.HasPrefix(c, "term="):
		return c[5:] == st.term
	}
	return strings.EqualFold(c, st.app)
}

type c13Out struct {
	binds map[string]string // keymap \x00 seq -> action|macro
	vars  map[string]string // name -> %T:%v
}

func newC13Out() *c13Out { return &c13Out{map[string]string{}, map[string]string{}} }

// c13Eval is the reference evaluator. innermostOnly=true models the *known defect*
// (a block's activity ignores its parents) and is only used to recognise that defect.
func c13Eval(p []c13Stmt, st c13Setting, active bool, km *string, id *int, out *c13Out, innermostOnly bool, files map[string]string) {
	for _, s := range p {
		switch s.Kind {
		case "bindf", "bindm":
			*id++
			if active {
				a := fmt.Sprintf("cmd%d|false", *id)
				if s.Kind == "bindm" {
					a = fmt.Sprintf("m%d|true", *id)
				}
				out.binds[*km+"\x00"+c13Keys[c13KeyIdx(s, *id)].seq] = a
			}
		case "setstr":
			*id++
			if active {
				out.vars[fmt.Sprintf("var%d", *id)] = fmt.Sprintf("string:val%dvx", *id)
			}
		case "setint":
			*id++
			if active {
				out.vars[fmt.Sprintf("num%d", *id)] = fmt.Sprintf("int:%d", *id%10)
			}
		case "setkm":
			*id++
			if active {
				*km = s.Arg
			}
		case "include":
			if active {
				// an included file is a program of its own (own ids from 100)
				sub := 100
				kmInc := "emacs"
				c13Eval(c13Includes[s.Arg], st, true, &kmInc, &sub, out, innermostOnly, files)
			}
		case "if":
			taken := st.cond(s.Arg)
			if innermostOnly {
				c13Eval(s.Then, st, taken, km, id, out, innermostOnly, files)
				if s.HasE {
					c13Eval(s.Else, st, !taken, km, id, out, innermostOnly, files)
				}
			} else {
				c13Eval(s.Then, st, active && taken, km, id, out, innermostOnly, files)
				if s.HasE {
					c13Eval(s.Else, st, active && !taken, km, id, out, innermostOnly, files)
				}
			}
		}
	}
}

func c13Run(text string, st c13Setting, files map[string]string) (out *c13Out, errs string, panicked string) {
	cfg := inputrc.NewConfig()
	cfg.ReadFileFunc = func(name string) ([]byte, error) {
		if s, ok := files[name]; ok {
			return []byte(s), nil
		}
		return nil, os.ErrNotExist
	}
	defer func() {
		if r := recover(); r != nil {
			panicked = fmt.Sprintf("%v @%s", r, panicFrame(string(debug.Stack()), "reeflective/readline"))
		}
	}()
	p := inputrc.New(inputrc.WithMode(st.mode), inputrc.WithTerm(st.term), inputrc.WithApp(st.app))
	err := p.Parse(strings.NewReader(text), cfg)
	if err != nil {
		errs = err.Error()
	} else if len(p.Errs()) > 0 {
		errs = p.Errs()[0].Error()
	}
	out = newC13Out()
	for km, m := range cfg.Binds {
		for seq, b := range m {
			out.binds[km+"\x00"+seq] = fmt.Sprintf("%s|%v", b.Action, b.Macro)
		}
	}
	for k, v := range cfg.Vars {
		out.vars[k] = fmt.Sprintf("%T:%v", v, v)
	}
	return
}

func c13Equal(a, b *c13Out) bool {
	if len(a.binds) != len(b.binds) || len(a.vars) != len(b.vars) {
		return false
	}
	for k, v := range a.binds {
		if b.binds[k] != v {
			return false
		}
	}
	for k, v := range a.vars {
		if b.vars[k] != v {
			return false
		}
	}
	return true
}

func c13Show(o *c13Out) string {
	var parts []string
	for k, v := range o.binds {
		km, seq, _ := strings.Cut(k, "\x00")
		parts = append(parts, fmt.Sprintf("bind[%s][%q]=%s", km, seq, v))
	}
	for k, v := range o.vars {
		parts = append(parts, fmt.Sprintf("var[%s]=%s", k, v))
	}
	sort.Strings(parts)
	return strings.Join(parts, " ")
}

// c13DiffKind names the kind of the first difference (for fingerprints).
func c13DiffKind(want, got *c13Out) string {
	var kinds []string
	add := func(k string) {
		for _, x := range kinds {
			if x == k {
				return
			}
		}
		kinds = append(kinds, k)
	}
	for k, v := range want.binds {
		g, ok := got.binds[k]
		switch {
		case !ok:
			add("bind-missing")
		case g != v:
			add("bind-differs")
		}
	}
	for k := range got.binds {
		if _, ok := want.binds[k]; !ok {
			add("bind-unexpected")
		}
	}
	for k, v := range want.vars {
		g, ok := got.vars[k]
		switch {
		case !ok:
			add("var-missing")
		case g != v:
			add("var-differs")
		}
	}
	for k := range got.vars {
		if _, ok := want.vars[k]; !ok {
			add("var-unexpected")
		}
	}
	sort.Strings(kinds)
	return strings.Join(kinds, "+")
}

func c13Files() map[string]string {
	files := map[string]string{}
	for name, prog := range c13Includes {
		var sb strings.Builder
		id := 100
		c13Print(prog, &id, &sb, "")
		files[name] = sb.String()
	}
	return files
}

// c13Check evaluates one program text+AST under one setting; returns fingerprint ("" ok).
func c13Check(prog []c13Stmt, text string, st c13Setting, files map[string]string) (fp, what string, nontrivial bool) {
	got, errs, panicked := c13Run(text, st, files)
	if panicked != "" {
		return "panic", fmt.Sprintf("parser panicked: %s", panicked), true
	}
	want := newC13Out()
	km, id := "emacs", 0
	c13Eval(prog, st, true, &km, &id, want, false, files)
	nontrivial = len(want.binds)+len(want.vars) > 0
	if errs != "" {
		return "error-on-wellformed", fmt.Sprintf("well-formed program reported error %q", errs), nontrivial
	}
	if c13Equal(want, got) {
		return "", "", nontrivial
	}
	// is it exactly the known "innermost block only" semantics?
	bug := newC13Out()
	km, id = "emacs", 0
	c13Eval(prog, st, true, &km, &id, bug, true, files)
	kind := c13DiffKind(want, got)
	if c13Equal(bug, got) {
		return "nested-block-ignores-inactive-outer", fmt.Sprintf("a directive inside a block nested in an INACTIVE outer block took effect (or an $else flipped on an inactive outer block): expected {%s} got {%s}", c13Show(want), c13Show(got)), nontrivial
	}
	return "mismatch/" + kind, fmt.Sprintf("expected {%s} got {%s}", c13Show(want), c13Show(got)), nontrivial
}

func init() {
	Register(&Check{ID: "C13", Level: "exploration", Run: runC13, Replay: func(c *Ctx, w *Witness) (string, string) {
		var in struct {
			Prog            []c13Stmt
			Text            string
			Mode, Term, App string
		}
		jsonUnmarshal(w.Input, &in)
		fp, what, _ := c13Check(in.Prog, in.Text, c13Setting{in.Mode, in.Term, in.App}, c13Files())
		return fmt.Sprintf("program:\n%s\nsetting mode=%s term=%s app=%s\n%s", in.Text, in.Mode, in.Term, in.App, what), fp
	}})
}

func runC13(c *Ctx) {
	n := 3
	if !c.Quick() {
		n = 4
		c.Deadline = c.Start.Add(30 * time.Minute)
	}
	var settings []c13Setting
	for _, m := range []string{"emacs", "vi"} {
		for _, t := range []string{"xterm", "vt100"} {
			for _, a := range []string{"foo", "Bar", "other"} {
				settings = append(settings, c13Setting{m, t, a})
			}
		}
	}
	files := c13Files()
	c.Rule = fmt.Sprintf("all programs of the grammar (leaves %d kinds; $if over %d conditions with optional $else; nesting <= 3) with <= %d statements x %d (mode,term,app) settings, parsed by the real parser and compared with the reference evaluator; non-trivial = (program, setting) pairs whose reference output has at least one bind or variable", len(c13Leaves), len(c13Conds), n, len(settings))
	c.Bounds = map[string]any{"max_statements": n, "max_nesting": 3, "conditions": c13Conds, "settings": len(settings)}
	c.Assumptions = []string{"term= is compared with exact terminal names only", "included files contain only variable assignments and conditionals (keymap scoping across $include is not specified by the statement)"}

	memo := map[[2]int][][]c13Stmt{}
	type res struct {
		fp, what, text string
		prog           []c13Stmt
		st             c13Setting
		size           int
	}
	var mu sync.Mutex
	best := map[string]res{}
	counts := map[string]int{}
	var evals, nontriv int64
	outcomes := map[string]int64{}

	for size := 0; size <= n; size++ {
		progs := c13Gen(size, 3, memo)
		var wg sync.WaitGroup
		nsh := 16
		for sh := 0; sh < nsh; sh++ {
			wg.Add(1)
			go func(sh int) {
				defer wg.Done()
				lbest := map[string]res{}
				lcounts := map[string]int{}
				lout := map[string]int64{}
				var ev, nt int64
				for i := sh; i < len(progs); i += nsh {
					if i%4096 == sh && c.Expired() {
						break
					}
					var sb strings.Builder
					id := 0
					c13Print(progs[i], &id, &sb, "")
					text := sb.String()
					for _, st := range settings {
						fp, what, non := c13Check(progs[i], text, st, files)
						ev++
						if non {
							nt++
						}
						if fp == "" {
							lout["ok"]++
							continue
						}
						lout[fp]++
						lcounts[fp]++
						if old, ok := lbest[fp]; !ok || len(text) < len(old.text) {
							lbest[fp] = res{fp, what, text, progs[i], st, size}
						}
					}
				}
				mu.Lock()
				evals += ev
				nontriv += nt
				for k, v := range lout {
					outcomes[k] += v
				}
				for k, v := range lcounts {
					counts[k] += v
				}
				for k, v := range lbest {
					if old, ok := best[k]; !ok || len(v.text) < len(old.text) || (len(v.text) == len(old.text) && v.text < old.text) {
						best[k] = v
					}
				}
				mu.Unlock()
			}(sh)
		}
		wg.Wait()
		if c.Expired() {
			c.Cap(fmt.Sprintf("internal deadline reached inside size %d", size))
			break
		}
		if size == 2 && len(progs) > 5 {
			var sb strings.Builder
			id := 0
			c13Print(progs[len(progs)/2], &id, &sb, "")
			c.Sample(map[string]any{"program": sb.String(), "statements": size})
		}
	}
	c.Evaluations = evals
	c.NontrivialN = nontriv
	c.Outcomes = outcomes
	{
		p := []c13Stmt{{Kind: "if", Arg: "mode=vi", Then: []c13Stmt{{Kind: "setkm", Arg: "vi-insert"}, {Kind: "bindm"}}, HasE: true, Else: []c13Stmt{{Kind: "setint"}}}}
		var sb strings.Builder
		id := 0
		c13Print(p, &id, &sb, "")
		want := newC13Out()
		km, i2 := "emacs", 0
		c13Eval(p, settings[6], true, &km, &i2, want, false, files)
		c.Sample(map[string]any{"program": sb.String(), "setting": settings[6], "reference_output": c13Show(want)})
	}
	var fps []string
	for fp := range best {
		fps = append(fps, fp)
	}
	sort.Strings(fps)
	for _, fp := range fps {
		r := best[fp]
		c.Violate(Witness{Fingerprint: fp, Engine: "pure",
			What:  fmt.Sprintf("program %q under mode=%s term=%s app=%s: %s [%d (program,setting) pairs]", r.text, r.st.mode, r.st.term, r.st.app, r.what, counts[fp]),
			Input: jsonRaw(map[string]any{"Prog": r.prog, "Text": r.text, "Mode": r.st.mode, "Term": r.st.term, "App": r.st.app})}, nil)
		c.cands[fp].count = counts[fp]
	}
}
