package checks

import (
	"fmt"
	"strings"
	"time"

	"verif/internal/harness"
)

// C15 — menu completion cycles through every candidate exactly once.
//
// Candidate sets of N values x shapes (plain, described, aliased by shared description,
// tags, mixed, long, wide glyphs) x terminal widths and heights x key programs (forward
// 2N+1 presses; backward 2N+1; forward N+k then backward N+k), on buffers "" and "c".
// Oracle: the word inserted after each press is a candidate value; within every window of
// N consecutive presses in one direction the N words are pairwise distinct (hence each
// candidate exactly once); press N+1 shows the same word as press 1; N = 1 is accepted at
// once.

type c15Shape struct {
	name string
	make func(n int) []harness.Comp
}

func c15Values(n int, f func(i int) string) []string {
	out := make([]string, n)
	for i := range out {
		out[i] = f(i)
	}
	return out
}

var c15Shapes = []c15Shape{
	{"plain", func(n int) []harness.Comp {
		var out []harness.Comp
		for i := 0; i < n; i++ {
			out = append(out, harness.Comp{Value: fmt.Sprintf("c%02d", i)})
		}
		return out
	}},
	{"varied-length", func(n int) []harness.Comp {
		var out []harness.Comp
		for i := 0; i < n; i++ {
			out = append(out, harness.Comp{Value: fmt.Sprintf("c%02d%s", i, strings.Repeat("x", (i*7)%11))})
		}
		return out
	}},
	{"described", func(n int) []harness.Comp {
		var out []harness.Comp
		for i := 0; i < n; i++ {
			out = append(out, harness.Comp{Value: fmt.Sprintf("c%02d", i), Desc: fmt.Sprintf("description number %d", i)})
		}
		return out
	}},
	{"aliased-pairs", func(n int) []harness.Comp {
		var out []harness.Comp
		for i := 0; i < n; i++ {
			out = append(out, harness.Comp{Value: fmt.Sprintf("c%02d", i), Desc: fmt.Sprintf("shared %d", i/2)})
		}
		return out
	}},
	{"aliased-many", func(n int) []harness.Comp {
		var out []harness.Comp
		for i := 0; i < n; i++ {
			out = append(out, harness.Comp{Value: fmt.Sprintf("c%02d-alias", i), Desc: fmt.Sprintf("shared %d", i%2)})
		}
		return out
	}},
	{"three-tags", func(n int) []harness.Comp {
		var out []harness.Comp
		for i := 0; i < n; i++ {
			out = append(out, harness.Comp{Value: fmt.Sprintf("c%02d", i), Tag: fmt.Sprintf("tag%d", i%3)})
		}
		return out
	}},
	{"mixed-described", func(n int) []harness.Comp {
		var out []harness.Comp
		for i := 0; i < n; i++ {
			cm := harness.Comp{Value: fmt.Sprintf("c%02d", i)}
			if i%2 == 0 {
				cm.Desc = fmt.Sprintf("d%d", i)
			}
			out = append(out, cm)
		}
		return out
	}},
	{"long-values", func(n int) []harness.Comp {
		var out []harness.Comp
		for i := 0; i < n; i++ {
			out = append(out, harness.Comp{Value: fmt.Sprintf("c%02d%s", i, strings.Repeat("-long", 9))})
		}
		return out
	}},
	{"aliased-ragged", func(n int) []harness.Comp {
		// alias groups (shared description) of sizes 2, 3, 1, 2, 3, 1...: rows of different lengths, holes in the grid
		var out []harness.Comp
		sizes := []int{2, 3, 1}
		g, left := 0, sizes[0]
		for i := 0; i < n; i++ {
			if left == 0 {
				g++
				left = sizes[g%3]
			}
			left--
			out = append(out, harness.Comp{Value: fmt.Sprintf("c%02d-r", i), Desc: fmt.Sprintf("group %d", g)})
		}
		return out
	}},
	{"aliased-ragged-short-first", func(n int) []harness.Comp {
		var out []harness.Comp
		sizes := []int{1, 3, 2, 4}
		g, left := 0, sizes[0]
		for i := 0; i < n; i++ {
			if left == 0 {
				g++
				left = sizes[g%4]
			}
			left--
			out = append(out, harness.Comp{Value: fmt.Sprintf("c%02d", i), Desc: fmt.Sprintf("g%d", g)})
		}
		return out
	}},
	{"unusual-values", func(n int) []harness.Comp {
		// values made of the typed word and punctuation / marker-like suffixes
		sfx := []string{"_", "ERR", "ERROR", "-", ".", "=", ":", "/", "@", "%", "+", "~", ",", "#", "!", "*", "?", "__", "-ERR", ".ERR", "\\", "'", "\"", "$", "&", "|", ";", "<", ">", "(", ")", "[", "]", "{", "}", "^", "`"}
		var out []harness.Comp
		for i := 0; i < n; i++ {
			v := "c" + sfx[i%len(sfx)]
			if i >= len(sfx) {
				v += fmt.Sprint(i / len(sfx))
			}
			out = append(out, harness.Comp{Value: v})
		}
		return out
	}},
	{"wide-glyphs", func(n int) []harness.Comp {
		var out []harness.Comp
		for i := 0; i < n; i++ {
			out = append(out, harness.Comp{Value: fmt.Sprintf("c%02d中文", i), Desc: "宽"})
		}
		return out
	}},
}

type c15Case struct {
	n       int
	shape   int
	w, h    int
	program string // fwd | bwd | mixed0 | mixed1 | mixed2
	buf     string
}

func (cs c15Case) String() string {
	return fmt.Sprintf("N=%d shape=%s terminal=%dx%d program=%s buffer=%q", cs.n, c15Shapes[cs.shape].name, cs.w, cs.h, cs.program, cs.buf)
}

const (
	c15Fwd = "\t"
	c15Bwd = "\x1b[Z"
)

func c15Keys(cs c15Case) []string {
	var ks []string
	rep := func(k string, n int) {
		for i := 0; i < n; i++ {
			ks = append(ks, k)
		}
	}
	switch cs.program {
	case "fwd":
		rep(c15Fwd, 2*cs.n+1)
	case "bwd":
		rep(c15Fwd, 1)
		rep(c15Bwd, 2*cs.n+1)
	default:
		k := int(cs.program[len(cs.program)-1] - '0')
		rep(c15Fwd, cs.n+k)
		rep(c15Bwd, cs.n+k)
	}
	return ks
}

func c15Job(id int, cs c15Case) (harness.Job, int) {
	cfg := harness.Config{RC: "set convert-meta off\nset input-meta on\nset output-meta on\n", W: cs.w, H: cs.h, Prompt: "$ ", NoHist: true,
		Comps: &harness.CompSpec{Items: c15Shapes[cs.shape].make(cs.n)}}
	var ans []harness.Answer
	if cs.buf != "" {
		ans = append(ans, Key(cs.buf))
	}
	from := len(ans)
	ans = append(ans, Keys(c15Keys(cs)...)...)
	return harness.Job{ID: id, Cfg: cfg, Calls: [][]harness.Answer{ans}, Want: harness.Want{Obs: 2, From: from}}, from
}

func c15Verdict(cs c15Case, t *harness.Trace) (fp, what string) {
	call := LastCall(t)
	if call.Outcome != "aborted" {
		return "", "not judged (C01): " + call.Outcome + "@" + call.Site
	}
	vals := map[string]bool{}
	for _, it := range c15Shapes[cs.shape].make(cs.n) {
		vals[it.Value] = true
	}
	keys := c15Keys(cs)
	var words []string
	for i, w := range call.Waits {
		if w.Obs == nil {
			return "", "not judged: missing observation"
		}
		if i == 0 {
			continue
		}
		words = append(words, w.Obs.Line)
	}
	if len(words) != len(keys) {
		return "", fmt.Sprintf("not judged: %d observations for %d keys", len(words), len(keys))
	}
	shape := c15Shapes[cs.shape].name
	if cs.n == 1 {
		if !strings.HasPrefix(words[0], c15Shapes[cs.shape].make(1)[0].Value) || call.Waits[1].Obs.Local == "menu-select" {
			return "single-candidate-not-accepted-at-once", fmt.Sprintf("%s: after the first press the buffer is %q (menu active: %v)", cs, words[0], call.Waits[1].Obs.Local == "menu-select")
		}
		return "", ""
	}
	for i, wd := range words {
		if !vals[wd] {
			return "inserted-word-is-not-a-candidate/" + shape, fmt.Sprintf("%s: press #%d inserted %q, which is not one of the %d candidate values", cs, i+1, wd, cs.n)
		}
	}
	// maximal runs of presses in one direction; the first TAB belongs to the forward run
	type run struct{ from, to int } // words[from:to] are the words shown after each press of the run
	var runs []run
	start := 0
	for i := 1; i <= len(keys); i++ {
		if i == len(keys) || keys[i] != keys[start] {
			runs = append(runs, run{start, i})
			start = i
		}
	}
	for ri, r := range runs {
		seq := words[r.from:r.to]
		dir := "forward"
		if keys[r.from] == c15Bwd {
			dir = "backward"
			// a backward run continues from the word shown before it
			if r.from > 0 {
				seq = append([]string{words[r.from-1]}, seq...)
			}
		}
		_ = ri
		for i := 0; i+cs.n <= len(seq); i++ {
			seen := map[string]int{}
			for j := i; j < i+cs.n; j++ {
				if k, dup := seen[seq[j]]; dup {
					return "candidate-visited-twice-in-one-cycle/" + dir + "/" + shape, fmt.Sprintf("%s: cycling %s, %q is shown at steps %d and %d of a window of N=%d presses (sequence: %v)", cs, dir, seq[j], k+1, j+1, cs.n, seq)
				}
				seen[seq[j]] = j
			}
		}
		for i := 0; i+cs.n < len(seq); i++ {
			if seq[i+cs.n] != seq[i] {
				return "cycle-does-not-return-to-start/" + dir + "/" + shape, fmt.Sprintf("%s: cycling %s, step %d shows %q but step %d (N=%d presses later) shows %q (sequence: %v)", cs, dir, i+1, seq[i], i+1+cs.n, cs.n, seq[i+cs.n], seq)
			}
		}
	}
	return "", ""
}

func init() {
	Register(&Check{ID: "C15", Level: "exploration", Run: runC15, Replay: func(c *Ctx, w *Witness) (string, string) {
		var in struct {
			N, Shape, W, H int
			Program, Buf   string
		}
		jsonUnmarshal(w.Input, &in)
		cs := c15Case{in.N, in.Shape, in.W, in.H, in.Program, in.Buf}
		j, _ := c15Job(0, cs)
		t := c.Pool.RunOne(&j)
		fp, what := c15Verdict(cs, t)
		var words []string
		for _, wt := range LastCall(t).Waits {
			if wt.Obs != nil {
				words = append(words, wt.Obs.Line)
			}
		}
		return fmt.Sprintf("%s\nwords: %v", what, words), fp
	}})
}

func runC15(c *Ctx) {
	quick := c.Quick()
	ns := []int{1, 2, 3, 4, 5, 6, 7, 8, 9, 10, 11, 12, 16, 17, 25, 36, 37, 60}
	ws := []int{20, 40, 80, 131}
	hs := []int{10, 24}
	if quick {
		ns = []int{1, 2, 3, 4, 5, 6, 7, 8, 9, 10, 11, 12, 16, 17, 25, 36, 37}
		ws = []int{20, 40, 80}
		hs = []int{10, 24}
		c.Deadline = c.Start.Add(6 * time.Minute)
	} else {
		c.Deadline = c.Start.Add(60 * time.Minute)
	}
	var cases []c15Case
	for _, n := range ns {
		for si := range c15Shapes {
			for _, w := range ws {
				for _, h := range hs {
					for _, p := range []string{"fwd", "bwd", "mixed0", "mixed1", "mixed2"} {
						for _, b := range []string{"", "c"} {
							cases = append(cases, c15Case{n, si, w, h, p, b})
						}
					}
				}
			}
		}
	}
	var sn []string
	for _, s := range c15Shapes {
		sn = append(sn, s.name)
	}
	c.Rule = fmt.Sprintf("N in %v x %d shapes %v x widths %v x heights %v x 5 key programs x buffers {\"\", \"c\"}: the buffer after every press is observed. non-trivial = distinct cases with N >= 2 (a full cycle is observed)", ns, len(c15Shapes), sn, ws, hs)
	c.Bounds = map[string]any{"N": ns, "shapes": sn, "widths": ws, "heights": hs, "cases": len(cases)}
	next := 0
	gen := func() (harness.Job, bool) {
		if next >= len(cases) || (next%1024 == 0 && c.Expired()) {
			return harness.Job{}, false
		}
		j, _ := c15Job(next, cases[next])
		next++
		return j, true
	}
	c.Pool.Stream(gen, func(j *harness.Job, t *harness.Trace) {
		cs := cases[j.ID]
		c.Evaluations++
		if t.Err != "" {
			c.HarnessError(t.Err)
			return
		}
		fp, what := c15Verdict(cs, t)
		if cs.n >= 2 {
			c.NontrivialN++
		}
		if c.Evaluations%701 == 3 {
			var words []string
			for _, wt := range LastCall(t).Waits {
				if wt.Obs != nil && len(words) < 12 {
					words = append(words, wt.Obs.Line)
				}
			}
			c.Sample(map[string]any{"case": cs.String(), "first_words": words})
		}
		if fp == "" {
			if strings.HasPrefix(what, "not judged") {
				k := strings.SplitN(what, "@", 2)[0]
				c.Outcome(k)
				if c.Outcomes[k] == 1 {
					c.Sample(map[string]any{"not_judged": what, "case": cs.String()})
				}
			} else {
				c.Outcome("ok")
			}
			return
		}
		c.Outcome(fp)
		if cd, ok := c.cands[fp]; ok {
			cd.count++
			return
		}
		jj := *j
		c.Violate(Witness{Fingerprint: fp, What: what, Engine: "session", Job: &jj,
			Input: jsonRaw(map[string]any{"N": cs.n, "Shape": cs.shape, "W": cs.w, "H": cs.h, "Program": cs.program, "Buf": cs.buf})}, func() string {
			f, _ := c15Verdict(cs, c.Pool.RunOne(&jj))
			return f
		})
	})
	if next < len(cases) {
		c.Cap(fmt.Sprintf("internal deadline: %d of %d cases run", next, len(cases)))
	}
}
