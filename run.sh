#!/bin/sh
# Rebuilds vcheck from /verif sources and /repo's *current working tree* (module replace),
# with the verif build tag on, then runs one check.  usage: ./run.sh <ID> <quick|thorough> | replay <file>
set -e
cd "$(dirname "$0")"
export GOFLAGS=-mod=mod GOPROXY=off
export VERIF_ROOT="${VERIF_ROOT:-$(pwd)}"
# NOTE: GOTOOLCHAIN/GOSUMDB are deliberately left alone: /repo/go.mod needs go1.23.6,
# which the default go switches to offline from the module cache.
mkdir -p bin
go build -tags verif -o bin/vcheck ./cmd/vcheck || { echo "BUILD FAILED (infrastructure error)"; exit 2; }
exec ./bin/vcheck "$@"
