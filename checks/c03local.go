package checks

// Local keymaps (vi-opp, visual, menu-select) for C03 — filled in below.
func runC03Local(c *Ctx) {}
