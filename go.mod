module verif

go 1.23.6

require (
	github.com/reeflective/readline v0.0.0
	golang.org/x/sys v0.8.0
)

require (
	github.com/rivo/uniseg v0.4.4 // indirect
	golang.org/x/exp v0.0.0-20220827204233-334a2380cb91 // indirect
	golang.org/x/term v0.8.0 // indirect
)

replace github.com/reeflective/readline => /repo
