package dump

import (
	"os"
	"testing"

	"github.com/reeflective/readline"
)

func BenchmarkHash(b *testing.B) {
	os.Setenv("INPUTRC", "/dev/null")
	sh := readline.NewShell()
	b.ResetTimer()
	for i := 0; i < b.N; i++ {
		Hash(sh, nil)
	}
}
