// vcheck is the single binary of the verification machinery:
//
//	vcheck <ID> <quick|thorough>   run one property check
//	vcheck replay <file>           re-run one witness without the explorer
//	vcheck __worker                (internal) session worker process
package main

import (
	"encoding/json"
	"fmt"
	"os"
	"path/filepath"
	"runtime/pprof"
	"strconv"
	"time"

	"verif/checks"
	"verif/internal/harness"
)

func main() {
	if len(os.Args) < 2 {
		fmt.Fprintln(os.Stderr, "usage: vcheck <ID> <quick|thorough> | replay <file>")
		os.Exit(2)
	}
	if os.Args[1] == "__worker" {
		harness.WorkerMain()
		return
	}
	if r := os.Getenv("VERIF_ROOT"); r != "" {
		checks.Root = r
	}
	if pf := os.Getenv("VERIF_CPUPROFILE"); pf != "" {
		f, _ := os.Create(pf)
		pprof.StartCPUProfile(f)
		defer pprof.StopCPUProfile()
	}
	scratch := filepath.Join(checks.Root, ".scratch", strconv.Itoa(os.Getpid()))
	os.MkdirAll(scratch, 0o755)
	code := run(scratch)
	os.RemoveAll(scratch)
	pprof.StopCPUProfile()
	os.Exit(code)
}

func run(scratch string) int {
	seed := 0
	if s := os.Getenv("VERIF_SEED"); s != "" {
		seed, _ = strconv.Atoi(s)
	}
	nw := 0
	if s := os.Getenv("VERIF_WORKERS"); s != "" {
		nw, _ = strconv.Atoi(s)
	}
	pool, err := harness.NewPool(nw, scratch)
	if err != nil {
		fmt.Fprintln(os.Stderr, err)
		return 2
	}
	defer pool.Close()

	if os.Args[1] == "replay" {
		if len(os.Args) < 3 {
			fmt.Fprintln(os.Stderr, "usage: vcheck replay <file>")
			return 2
		}
		b, err := os.ReadFile(os.Args[2])
		if err != nil {
			fmt.Fprintln(os.Stderr, err)
			return 2
		}
		var w checks.Witness
		if err := json.Unmarshal(b, &w); err != nil {
			fmt.Fprintln(os.Stderr, err)
			return 2
		}
		ch := checks.Get(w.Property)
		if ch == nil || ch.Replay == nil {
			fmt.Fprintf(os.Stderr, "no replay for property %q\n", w.Property)
			return 2
		}
		c := &checks.Ctx{ID: w.Property, Tier: "quick", Pool: pool, Start: time.Now(), Level: ch.Level}
		c.Scratch = scratch
		report, fp := ch.Replay(c, &w)
		fmt.Println(report)
		if fp != "" {
			fmt.Printf("REPRODUCED fingerprint=%s (recorded %s)\n", fp, w.Fingerprint)
			return 1
		}
		fmt.Println("NOT REPRODUCED (the witness no longer violates the property)")
		return 0
	}

	id := os.Args[1]
	tier := "quick"
	if len(os.Args) > 2 {
		tier = os.Args[2]
	} else if t := os.Getenv("VERIF_TIER"); t != "" {
		tier = t
	}
	ch := checks.Get(id)
	if ch == nil {
		fmt.Fprintf(os.Stderr, "unknown check %q (have %v)\n", id, checks.IDs())
		return 2
	}
	c := &checks.Ctx{ID: id, Tier: tier, Seed: seed, Pool: pool, Start: time.Now(), Level: ch.Level, Exhaustive: true}
	c.Scratch = scratch
	ch.Run(c)
	code := c.Finish()
	fmt.Printf("%s %s: evaluations=%d states=%d transitions=%d exhaustive=%v wall=%.1fs exit=%d\n",
		id, tier, c.Evaluations, c.States, c.Transitions, c.Exhaustive && len(c.Caps) == 0, time.Since(c.Start).Seconds(), code)
	return code
}
