package checks

import (
	"fmt"
	"strings"
	"time"

	"verif/internal/harness"
)

// C01 — Readline never crashes, spins or deadlocks on any keyboard input.
//
// Explicit-state BFS over the real Readline loop (see explore.go): from every seed
// state (buffers x cursor x pending argument x mode x open menus/searches/recordings),
// every action of an alphabet *derived from the configuration under test* (every bound
// sequence of the main and local keymaps, every registered command through a generated
// inputrc, data keys, unbound bytes), to a stated depth; plus, in every reached state,
// the four fault transitions (stdin answers EOF / EIO, once or for ever), at main-loop
// waits and at argument waits. Oracle: no panic escapes Readline; after each answered
// read the call has returned or asks for input again; with persistent EOF/error it
// returns within 1000 reads; no fatal runtime error, no hang.

func c01Verdict(t *harness.Trace) (fp, what string) {
	call := LastCall(t)
	switch call.Outcome {
	case "returned", "aborted":
		return "", ""
	case "panic":
		return "panic@" + call.Site + ":" + panicKind(call.Err), fmt.Sprintf("panic %q at %s", call.Err, call.Site)
	case "spin":
		return "spin-on-persistent-input-failure", "Readline keeps reading after stdin failed persistently: " + call.Site
	case "hung":
		return "hung@" + call.Site, "no progress: " + call.Site
	case "fatal":
		return "fatal@" + sanitize(call.Site), "fatal runtime error: " + call.Site
	}
	return "outcome-" + call.Outcome, call.Outcome
}

type c01Mode struct {
	name   string
	rc     string
	km     string   // main keymap whose binds form the alphabet
	locals []string // local keymaps whose binds are added
	enter  string   // keys that enter the mode from a fresh call ("" for insert modes)
}

func emacsSeeds() []Seed {
	var seeds []Seed
	bufs := []struct{ n, t string }{
		{"empty", ""}, {"a", "a"}, {"foo-bar", "foo bar"}, {"punct", "foo.bar-baz"}, {"quotes", "a 'b c' \"d\""}, {"brackets", "(x [y] {z})"},
	}
	for _, b := range bufs {
		pre := []harness.Answer{}
		if b.t != "" {
			pre = append(pre, Key(b.t))
		}
		seeds = append(seeds, Seed{Name: b.n + "/end", Pre: pre})
		if len(b.t) > 1 {
			seeds = append(seeds, Seed{Name: b.n + "/start", Pre: append(append([]harness.Answer{}, pre...), Key("\x01"))})
			seeds = append(seeds, Seed{Name: b.n + "/mid", Pre: append(append([]harness.Answer{}, pre...), Key("\x02"), Key("\x02"))})
		}
	}
	fb := []harness.Answer{Key("foo bar"), Key("\x02")}
	with := func(name string, ks ...string) {
		seeds = append(seeds, Seed{Name: name, Pre: append(append([]harness.Answer{}, fb...), Keys(ks...)...)})
	}
	with("arg2", "\x1b2")
	with("arg-neg", "\x1b-")
	with("arg0", "\x1b0")
	with("arg99", "\x1b9", "9")
	with("mark", "\x00", "\x02", "\x02")
	with("isearch", "\x12")
	with("isearch-typed", "\x12", "o")
	with("noninc-search", "\x1bp")
	with("macro-rec", "\x18(")
	with("menu", "\t")
	with("menu2", "\t", "\t")
	with("history-walk", "\x10")
	seeds = append(seeds, Seed{Name: "hist-match/last-char", Pre: Keys("tw", "\x02")})
	with("ctlx-prefix", "\x18")
	with("esc-prefix", "\x1b")
	with("quoted-insert-wait", "\x16")
	with("multiline", "\x01", "(", "\r", "x")
	seeds = append(seeds,
		Seed{Name: "two-lines/mid", Pre: Keys("(ab", "\r", "cd", "\x02")},
		Seed{Name: "empty-line-between", Pre: Keys("(a", "\r", "\r", "b", "\x10")})
	return seeds
}

func viSeeds() []Seed {
	var seeds []Seed
	fb := []harness.Answer{Key("foo bar"), Key("\x1b")}
	with := func(name string, ks ...string) {
		seeds = append(seeds, Seed{Name: name, Pre: append(append([]harness.Answer{}, fb...), Keys(ks...)...)})
	}
	seeds = append(seeds, Seed{Name: "cmd/empty", Pre: Keys("\x1b")})
	seeds = append(seeds, Seed{Name: "cmd/a", Pre: Keys("a", "\x1b")})
	seeds = append(seeds, Seed{Name: "cmd/quotes", Pre: Keys("a 'b c' \"d\" (e)", "\x1b", "h", "h")})
	with("cmd/end")
	with("cmd/start", "0")
	with("cmd/mid", "h", "h")
	with("cmd/arg2", "2")
	with("cmd/arg12", "1", "2")
	with("visual", "h", "v")
	with("visual-moved", "h", "v", "h")
	with("visual-line", "V")
	with("opp-d", "0", "d")
	with("opp-c", "0", "c")
	with("opp-y", "h", "y")
	with("opp-gu", "0", "g", "u")
	with("opp-d2", "0", "d", "2")
	with("register", "\"", "a")
	with("register-wait", "\"")
	with("find-wait", "0", "f")
	with("replace-wait", "0", "r")
	with("macro-rec", "q", "a")
	with("macro-wait", "q")
	with("g-prefix", "g")
	with("history-walk", "k")
	with("search", "/")
	with("search-back-typed", "?", "o", "n", "e")
	with("search-fwd-typed", "/", "t", "w", "o")
	with("search-back-long", "?", "t", "w", "o", " ", "w", "o", "r", "d", "s")
	seeds = append(seeds, Seed{Name: "cmd/hist-match-last-char", Pre: Keys("tw", "\x1b")})
	with("multiline", "0", "i", "(", "\r", "x", "\x1b")
	seeds = append(seeds,
		Seed{Name: "cmd/two-lines", Pre: Keys("(ab", "\r", "cd", "\x1b", "k")},
		Seed{Name: "cmd/empty-line-between", Pre: Keys("(a", "\r", "\r", "b", "\x1b", "k")},
		// a named register filled by a line-wise / word-wise yank (a later yank appended to it through
		// its upper-case name must leave the buffer alone)
		Seed{Name: "cmd/two-lines-yanked-into-a", Pre: Keys("(ab", "\r", "cd", "\x1b", "k", "\"", "a", "Y")},
		Seed{Name: "cmd/word-yanked-into-a", Pre: Keys("foo bar", "\x1b", "0", "\"", "a", "y", "w")})
	return seeds
}

func init() {
	Register(&Check{ID: "C01", Level: "model_checking", Run: runC01, Replay: func(c *Ctx, w *Witness) (string, string) {
		t := c.Pool.RunOne(w.Job)
		fp, what := c01Verdict(t)
		return fmt.Sprintf("keys: %s\noutcome: %s %s\n%s\n%s", ShowKeys(w.Job.Calls[0]), LastCall(t).Outcome, LastCall(t).Err, what, LastCall(t).Stack), fp
	}})
}

type c01Variant struct {
	name string
	rc   string
	cfg  func(*harness.Config)
}

func runC01(c *Ctx) {
	quick := c.Quick()
	if quick {
		c.Deadline = c.Start.Add(8 * time.Minute)
	} else {
		c.Deadline = c.Start.Add(100 * time.Minute)
	}
	c.Rule = "explicit-state BFS over the real Readline loop: state = canonical reflective dump of *Shell + emulator screen + termios at a wait (argument waits are states too); transition = one key chunk (alphabet derived from the configuration: every bound sequence, every registered command via a generated inputrc, data keys, unbound bytes) or one fault answer (EOF/EIO once/for ever); successor computed by replaying the path on a fresh Shell with the parent hash re-validated. non-trivial = distinct states reached"
	c.Assumptions = []string{"map-iteration-order dependent behaviour is not enumerated (no seam in the Go runtime)", "numeric arguments capped at two digits", "watchdog (60 s without reaching a wait) is only the backstop for hangs; spin on persistent EOF is count-based (1000 reads)"}

	comps := &harness.CompSpec{Items: []harness.Comp{{Value: "foo"}, {Value: "foobar"}, {Value: "bar"}, {Value: "baz", Desc: "a description"}}, ByWord: true}
	hist := []harness.HistSpec{{Kind: "default", Lines: []string{"one", "two words", "foo bar baz"}}}
	base := harness.Config{W: 40, H: 12, Prompt: "$ ", Comps: comps, Hist: hist, Multiline: "paren"}

	modes := []c01Mode{
		{name: "emacs", rc: "", km: "emacs", locals: []string{"menu-select", "isearch"}},
		{name: "vi-insert", rc: "set editing-mode vi\n", km: "vi-insert", locals: []string{"menu-select", "isearch"}},
		{name: "vi-command", rc: "set editing-mode vi\n", km: "vi-command", locals: []string{"vi-opp", "visual", "menu-select", "isearch"}},
	}
	variants := []c01Variant{
		{name: "default"},
		{name: "all-bound"},
	}
	extra := []c01Variant{
		{name: "autopairs", rc: "set autopairs on\n"},
		{name: "autocomplete", rc: "set autocomplete on\n"},
		{name: "autosuggest", rc: "set history-autosuggest on\n"},
		{name: "blink-paren", rc: "set blink-matching-paren on\n"},
		{name: "mode-in-prompt", rc: "set show-mode-in-prompt on\n"},
		{name: "utf8", rc: "set convert-meta off\nset input-meta on\nset output-meta on\n"},
		{name: "no-completion", rc: "set disable-completion on\n"},
		{name: "no-history", cfg: func(h *harness.Config) { h.Hist = nil; h.NoHist = true }},
		{name: "empty-history", cfg: func(h *harness.Config) { h.Hist = nil }},
		{name: "one-entry-history", cfg: func(h *harness.Config) { h.Hist = []harness.HistSpec{{Kind: "default", Lines: []string{"x"}}} }},
		{name: "two-sources", cfg: func(h *harness.Config) {
			h.Hist = []harness.HistSpec{{Kind: "mem", Name: "A", Lines: []string{"a1", "a2"}}, {Kind: "file", Name: "B", Lines: []string{"b1"}}}
		}},
		{name: "no-completer", cfg: func(h *harness.Config) { h.Comps = nil }},
		{name: "zero-candidates", cfg: func(h *harness.Config) { h.Comps = &harness.CompSpec{} }},
		{name: "one-candidate", cfg: func(h *harness.Config) { h.Comps = &harness.CompSpec{Items: []harness.Comp{{Value: "foobar"}}} }},
		{name: "tagged-long", cfg: func(h *harness.Config) {
			h.Comps = &harness.CompSpec{Items: []harness.Comp{{Value: "foo", Tag: "t1", Desc: "same"}, {Value: "fob", Tag: "t1", Desc: "same"}, {Value: "f" + strings.Repeat("x", 50), Tag: "t2"}, {Value: "中文", Tag: "t2", Desc: "wide"}}}
		}},
		{name: "aliased-wide-narrow", cfg: func(h *harness.Config) {
			h.W, h.H = 20, 10
			h.Comps = &harness.CompSpec{Items: []harness.Comp{{Value: "foo中文-long-value", Desc: "宽"}, {Value: "fob中文-long-value", Desc: "宽"}, {Value: "fox", Desc: "other"}}}
		}},
		{name: "editor-keep", cfg: func(h *harness.Config) { h.Editor = "keep" }},
		{name: "editor-empty", cfg: func(h *harness.Config) { h.Editor = "empty" }},
		{name: "narrow", cfg: func(h *harness.Config) { h.W, h.H = 8, 6 }},
	}

	statesByMode := map[string]int64{}
	check := func(sc *Scenario, seed *Seed, path []string, act *Action, job *harness.Job, t *harness.Trace) {
		c.Evaluations++
		fp, what := c01Verdict(t)
		call := LastCall(t)
		if fp == "" {
			c.Outcome("ok/" + call.Outcome)
			if n := len(call.Waits); n > 0 && call.Waits[n-1].Obs != nil {
				o := call.Waits[n-1].Obs
				statesByMode[o.Main+"/"+o.Local+"/"+o.Kind]++
			}
			return
		}
		c.Outcome(fp)
		desc := fmt.Sprintf("[%s] seed %s, path %v, then %s: %s; keys: %s", sc.Name, seed.Name, path, act.Name, what, ShowKeys(job.Calls[0]))
		c.ViolateJob(fp, desc, job, func(t2 *harness.Trace) string { f, _ := c01Verdict(t2); return f })
	}

	run := func(m c01Mode, v c01Variant, depth int, seeds []Seed, faults bool, maxStates int) {
		if c.Expired() {
			c.Cap("internal deadline: scenario " + m.name + "/" + v.name + " skipped")
			return
		}
		cfg := base
		rc := m.rc + v.rc
		var probes []Action
		if v.name == "all-bound" {
			r, acts := allBoundRC(m.km)
			rc += r
			probes = acts
		}
		cfg.RC = rc
		if v.cfg != nil {
			v.cfg(&cfg)
		}
		binds := driverBinds(c, rc)
		lists := [][]Action{keymapActions(binds[m.km])}
		for _, l := range m.locals {
			lists = append(lists, keymapActions(binds[l]))
		}
		lists = append(lists, probes, dataKeys(strings.Contains(rc, "convert-meta off")))
		alpha := mergeActions(lists...)
		sc := &Scenario{Name: m.name + "/" + v.name, Cfg: cfg, Seeds: seeds, Alphabet: alpha, Depth: depth, Faults: faults,
			Want: harness.Want{Hash: 2, Obs: 1}, Check: check, MaxStates: maxStates}
		before := c.Transitions
		c.BFS(sc)
		c.Sample(map[string]any{"scenario": sc.Name, "seeds": len(seeds), "alphabet": len(alpha), "depth": depth, "transitions": c.Transitions - before, "example_action": alpha[len(alpha)/3].Name})
	}

	for _, m := range modes {
		seeds := emacsSeeds()
		if m.km == "vi-command" {
			seeds = viSeeds()
		}
		if m.km == "vi-insert" {
			// insert-mode seeds are the emacs ones that make sense in vi-insert
			seeds = nil
			for _, s := range emacsSeeds() {
				switch {
				case strings.HasPrefix(s.Name, "arg"), s.Name == "mark", s.Name == "noninc-search", s.Name == "macro-rec", s.Name == "ctlx-prefix", s.Name == "isearch", s.Name == "isearch-typed", s.Name == "esc-prefix":
					continue
				}
				seeds = append(seeds, s)
			}
		}
		for _, v := range variants {
			run(m, v, 1, seeds, true, 0)
		}
		// deeper from a few seeds in the all-bound variant
		few := seeds
		if len(few) > 3 {
			few = []Seed{seeds[0], seeds[3], seeds[len(seeds)-1]}
		}
		if quick {
			run(m, variants[0], 2, few[:2], false, 60)
		} else {
			run(m, variants[1], 2, seeds, true, 0)
			run(m, variants[0], 3, few, false, 400)
		}
		for _, v := range extra {
			if quick {
				// the 8 most structured seeds
				ss := seeds
				if len(ss) > 8 {
					ss = ss[len(ss)-8:]
				}
				run(m, v, 1, ss, false, 0)
			} else {
				run(m, v, 1, seeds, true, 0)
			}
		}
	}
	// every registered command from every small planted state (buffer x cursor)
	plantAlpha := []string{"a", " ", "\"", "\n", ")"}
	plantL := 2
	if !quick {
		plantAlpha = []string{"a", " ", ".", "\"", "\n", "é", "(", ")"}
		plantL = 3
	}
	bufs := c02Strings(plantAlpha, plantL)
	for _, m := range modes {
		if c.Expired() {
			c.Cap("internal deadline: planted states for " + m.name + " skipped")
			break
		}
		var enter []harness.Answer
		if m.km == "vi-command" {
			enter = Keys("\x1b")
		}
		chunk := 600
		for off := 0; off < len(bufs); {
			// at most 676 planted states per configuration
			var part []string
			cnt := 0
			for off < len(bufs) && cnt+len([]rune(bufs[off]))+1 <= chunk {
				cnt += len([]rune(bufs[off])) + 1
				part = append(part, bufs[off])
				off++
			}
			prc, probes, seeds := plantedSeeds(m.km, part, enter)
			arc, acts := allBoundRC(m.km)
			cfg := base
			// (bracket matching is display-only: turned on so that the highlighter runs on every planted state)
			cfg.RC = m.rc + "set blink-matching-paren on\n" + arc + prc
			cfg.Probes = probes
			sc := &Scenario{Name: m.name + "/planted-states", Cfg: cfg, Seeds: seeds, Alphabet: acts, Depth: 1,
				Want: harness.Want{Hash: 2, Obs: 1}, Check: check}
			before := c.Transitions
			c.BFS(sc)
			c.Sample(map[string]any{"scenario": sc.Name, "planted_states": len(seeds), "alphabet": len(acts), "transitions": c.Transitions - before})
		}
	}
	// all byte strings up to length 3 over a byte alphabet (incl. UTF-8 lead / continuation
	// bytes alone, truncated and invalid sequences, ESC, CSI introducer, NUL, 0xff), as one
	// chunk and one byte per read, in emacs and vi-insert, default and UTF-8 meta settings
	{
		balpha := []byte{'a', '\r', 0x1b, '[', '~', 0xc3, 0xa9, 0xe2, 0x82, 0xf0, 0x80, 0xff, 0x00, 'R', ';', '1'}
		blen := 3
		if quick {
			balpha = []byte{'a', 0x1b, '[', 0xc3, 0xa9, 0xe2, 0x82, 0x80, 0xff, 0x00}
		}
		var strs [][]byte
		var rec func(p []byte, d int)
		rec = func(p []byte, d int) {
			if len(p) > 0 {
				strs = append(strs, append([]byte{}, p...))
			}
			if d == blen {
				return
			}
			for _, b := range balpha {
				rec(append(p, b), d+1)
			}
		}
		rec(nil, 0)
		type bj struct {
			desc string
			job  harness.Job
		}
		var bjs []bj
		for _, mode := range []string{"emacs", "vi-insert"} {
			for _, meta := range []string{"", "set convert-meta off\nset input-meta on\nset output-meta on\n"} {
				for _, st := range strs {
					for _, del := range []string{"chunk", "byte"} {
						if del == "byte" && len(st) == 1 {
							continue
						}
						var ans []harness.Answer
						if del == "chunk" {
							ans = []harness.Answer{{Bytes: st}}
						} else {
							for _, b := range st {
								ans = append(ans, harness.Answer{Bytes: []byte{b}})
							}
						}
						ans = append(ans, Key("a"), Key("\r"))
						cfg := harness.Config{RC: modeRC(mode) + meta, W: 40, H: 12, Prompt: "$ "}
						bjs = append(bjs, bj{fmt.Sprintf("[raw bytes] mode=%s utf8=%v bytes=%q delivery=%s", mode, meta != "", st, del), harness.Job{ID: len(bjs), Cfg: cfg, Calls: [][]harness.Answer{ans}}})
					}
				}
			}
		}
		// a terminal that answers one cursor-position query with nonsense, then keys, an unsolicited
		// report glued to a key, more keys: the loop must carry on and return
		for _, mode := range []string{"emacs", "vi-insert"} {
			for bad := 1; bad <= 4; bad++ {
				for _, tail := range [][]string{{"a", "\x1b[5;5Rb", "\r"}, {"a", "b", "\x1b[5;5R", "\r"}, {"\t", "a", "\x1b[5;5R", "\r"}} {
					cfg := harness.Config{RC: modeRC(mode), W: 40, H: 12, Prompt: "$ ", BadCPR: bad}
					bjs = append(bjs, bj{fmt.Sprintf("[unusable answer to cursor query #%d] mode=%s keys=%q", bad, mode, tail), harness.Job{ID: len(bjs), Cfg: cfg, Calls: [][]harness.Answer{Keys(tail...)}}})
				}
			}
		}
		// undo pressed more often than there are states to undo, then redo (and an edit, undo, redo):
		// longer than the general search goes, cheap as a family of its own
		for _, mode := range []string{"emacs", "vi"} {
			rc := modeRC(mode) + "\"\\C-x\\C-]r\": redo\n"
			undo, redo, pre := "\x1f", "\x18\x1dr", []string{"ab"}
			if mode == "vi" {
				rc = modeRC(mode) + "set keymap vi-command\n\"\\C-r\": redo\n"
				undo, redo, pre = "u", "\x12", []string{"a", "b", "\x1b"}
			}
			for _, edits := range [][]string{nil, {"\x17", "c"}} {
				if mode == "vi" && edits != nil {
					edits = []string{"x", "i", "c", "\x1b"}
				}
				for n := 1; n <= 6; n++ {
					for m := 1; m <= 3; m++ {
						ks := append(append([]string{}, pre...), edits...)
						for i := 0; i < n; i++ {
							ks = append(ks, undo)
						}
						for i := 0; i < m; i++ {
							ks = append(ks, redo)
						}
						ks = append(ks, undo, redo, "\r")
						cfg := harness.Config{RC: rc, W: 40, H: 12, Prompt: "$ "}
						bjs = append(bjs, bj{fmt.Sprintf("[undo x%d, redo x%d] mode=%s keys=%q", n, m, mode, ks), harness.Job{ID: len(bjs), Cfg: cfg, Calls: [][]harness.Answer{Keys(ks...)}}})
					}
				}
			}
		}
		// a keyboard macro whose definition calls the macro being defined (then called): it must not feed itself for ever
		for _, ks := range [][]string{
			{"\x18(", "a", "\x18)", "\x18(", "\x18e", "\x18)", "\x18e", "b", "\r"},
			{"\x18(", "\x18e", "a", "\x18)", "\x18e", "\r"},
		} {
			cfg := harness.Config{W: 40, H: 12, Prompt: "$ "}
			bjs = append(bjs, bj{fmt.Sprintf("[macro calling itself] mode=emacs keys=%q", ks), harness.Job{ID: len(bjs), Cfg: cfg, Calls: [][]harness.Answer{Keys(ks...)}}})
		}
		for _, ks := range [][]string{
			{"x", "\x1b", "q", "a", "@", "a", "q", "@", "a", "\r"},
			{"x", "\x1b", "q", "a", "h", "q", "q", "a", "@", "a", "l", "q", "@", "a", "\r"},
		} {
			cfg := harness.Config{RC: modeRC("vi"), W: 40, H: 12, Prompt: "$ "}
			bjs = append(bjs, bj{fmt.Sprintf("[macro calling itself] mode=vi keys=%q", ks), harness.Job{ID: len(bjs), Cfg: cfg, Calls: [][]harness.Answer{Keys(ks...)}}})
		}
		hangs := 0
		next := 0
		c.Pool.Stream(func() (harness.Job, bool) {
			if next >= len(bjs) || hangs >= 3 || (next%2048 == 0 && c.Expired()) {
				return harness.Job{}, false
			}
			next++
			return bjs[next-1].job, true
		}, func(j *harness.Job, t *harness.Trace) {
			c.Evaluations++
			c.Transitions++
			c.Traces++
			if t.Err != "" {
				c.HarnessError(t.Err)
				return
			}
			fp, what := c01Verdict(t)
			if fp == "" {
				c.Outcome("ok/" + LastCall(t).Outcome)
				return
			}
			if LastCall(t).Outcome == "hung" {
				hangs++
			}
			c.Outcome(fp)
			c.ViolateJob(fp, fmt.Sprintf("%s: %s", bjs[j.ID].desc, what), j, func(t2 *harness.Trace) string { f, _ := c01Verdict(t2); return f })
		})
		if next < len(bjs) {
			c.Cap(fmt.Sprintf("raw byte strings: stopped after %d of %d executions (hangs or deadline)", next, len(bjs)))
		}
		c.Sample(map[string]any{"scenario": "raw byte strings", "byte_alphabet": fmt.Sprintf("%q", balpha), "max_len": blen, "executions": next})
	}
	// vi operators x motions x counts from every small planted state (operator-pending
	// and visual modes entered from arbitrary buffers, not only from the typed seeds)
	{
		alpha := []string{"a", " ", "(", ")", "\n", "\""}
		if !quick {
			alpha = c17Alphabet
		}
		// surround commands take one or two argument keys
		motions := append(append([]string{}, c17Motions...), "s\"'", "s'\"", "s([", "s)]", "s\"", "s(")
		rcV, _ := c16RC("vi")
		var jobs []harness.Job
		var descs []string
		for _, b := range c02Strings(alpha, 2) {
			n := len([]rune(b))
			for pos := 0; pos < n || pos == 0; pos++ {
				for _, op := range []string{"d", "c", "y"} {
					for _, m := range motions {
						for _, cnt := range []string{"", "2op", "op2", "op3"} {
							cs := c17Case{buf: b, pos: pos, motion: m, count: cnt}
							jobs = append(jobs, c17Job(len(jobs), cs, op, rcV))
							descs = append(descs, op+" "+cs.String())
						}
					}
					for _, m := range c17Visual {
						for _, v := range []string{"v", "V"} {
							cs := c17Case{buf: b, pos: pos, motion: m, visual: v}
							jobs = append(jobs, c17Job(len(jobs), cs, op, rcV))
							descs = append(descs, op+" "+cs.String())
						}
					}
				}
			}
		}
		if c.Expired() {
			c.Cap("internal deadline: vi operator corpus skipped")
			jobs = nil
		}
		for i := range jobs {
			jobs[i].Want = harness.Want{}
		}
		c.Pool.Map(jobs, func(j *harness.Job, t *harness.Trace) {
			c.Evaluations++
			c.Transitions++
			c.Traces++
			if t.Err != "" {
				c.HarnessError(t.Err)
				return
			}
			fp, what := c01Verdict(t)
			if fp == "" {
				c.Outcome("ok/" + LastCall(t).Outcome)
				return
			}
			c.Outcome(fp)
			c.ViolateJob(fp, fmt.Sprintf("[vi operator corpus] %s: %s; keys: %s", descs[j.ID], what, ShowKeys(j.Calls[0])), j, func(t2 *harness.Trace) string { f, _ := c01Verdict(t2); return f })
		})
		c.Sample(map[string]any{"scenario": "vi operator corpus (planted state, operator d/c/y, motion, count form)", "executions": len(jobs)})
	}
	c.Extra = map[string]any{"states_by_main/local/waitkind": statesByMode}
	c.NontrivialN = c.States
	c.Bounds = map[string]any{"modes": []string{"emacs", "vi-insert", "vi-command (+visual, visual-line, operator-pending, register/find/replace argument waits, macro recording, search)"}, "variants": len(variants) + len(extra), "fault_kinds": faultKinds}
}
