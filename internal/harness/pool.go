package harness

import (
	"bufio"
	"encoding/json"
	"fmt"
	"os"
	"os/exec"
	"path/filepath"
	"runtime"
	"sync"
	"sync/atomic"
)

// Pool runs jobs on worker processes (one pty each).
type Pool struct {
	N        int
	Scratch  string
	exe      string
	workers  []*proc
	Jobs     int64 // executions run
	Restarts int64
	recycle  int
	Watchdog int
}

type proc struct {
	id    int
	cmd   *exec.Cmd
	in    *os.File // we write jobs
	out   *bufio.Reader
	outf  *os.File
	enc   *json.Encoder
	crash string
	jobs  int
}

// NewPool creates a pool of n workers re-executing the current binary in worker mode.
func NewPool(n int, scratch string) (*Pool, error) {
	// /proc/self/exe keeps referring to the binary this process was started from,
	// even if bin/vcheck is rebuilt while a check is running.
	exe := "/proc/self/exe"
	if _, err := os.Stat(exe); err != nil {
		var e2 error
		if exe, e2 = os.Executable(); e2 != nil {
			return nil, e2
		}
	}
	if n <= 0 {
		n = runtime.NumCPU()
	}
	p := &Pool{N: n, Scratch: scratch, exe: exe, recycle: 20000, Watchdog: 30}
	p.workers = make([]*proc, n)
	return p, nil
}

func (p *Pool) start(i int) (*proc, error) {
	jr, jw, err := os.Pipe()
	if err != nil {
		return nil, err
	}
	tr, tw, err := os.Pipe()
	if err != nil {
		return nil, err
	}
	dir := filepath.Join(p.Scratch, fmt.Sprintf("w%d", i))
	os.MkdirAll(dir, 0o755)
	crash := filepath.Join(dir, "crash.txt")
	cmd := exec.Command(p.exe, "__worker")
	devnull, _ := os.Open(os.DevNull)
	cmd.Stdin = devnull
	cmd.Stdout = nil
	cmd.Stderr = nil
	cmd.ExtraFiles = []*os.File{jr, tw}
	cmd.Env = append(os.Environ(),
		"VERIF_SCRATCH="+dir,
		"VERIF_CRASHFILE="+crash,
		fmt.Sprintf("VERIF_WATCHDOG=%d", p.Watchdog),
		"GOMAXPROCS=2",
	)
	if err := cmd.Start(); err != nil {
		return nil, err
	}
	jr.Close()
	tw.Close()
	devnull.Close()
	rd := bufio.NewReaderSize(tr, 1<<20)
	return &proc{id: i, cmd: cmd, in: jw, out: rd, outf: tr, enc: json.NewEncoder(jw), crash: crash}, nil
}

func (pr *proc) stop() {
	pr.in.Close()
	pr.cmd.Process.Kill()
	pr.cmd.Wait()
	pr.outf.Close()
}

// Close stops all workers.
func (p *Pool) Close() {
	for i, w := range p.workers {
		if w != nil {
			w.stop()
			p.workers[i] = nil
		}
	}
}

// runOn runs one job on worker slot i, restarting the process when it died.
func (p *Pool) runOn(i int, job *Job) *Trace {
	for attempt := 0; ; attempt++ {
		w := p.workers[i]
		if w != nil && w.jobs >= p.recycle {
			w.stop()
			w = nil
		}
		if w == nil {
			var err error
			w, err = p.start(i)
			if err != nil {
				return &Trace{ID: job.ID, Err: "start worker: " + err.Error()}
			}
			p.workers[i] = w
		}
		w.jobs++
		atomic.AddInt64(&p.Jobs, 1)
		if err := w.enc.Encode(job); err != nil {
			w.stop()
			p.workers[i] = nil
			if attempt < 2 {
				continue
			}
			return &Trace{ID: job.ID, Err: "send job: " + err.Error()}
		}
		line, err := w.out.ReadBytes('\n')
		if err != nil {
			// The worker died: fatal runtime error (or watchdog exit after reporting).
			crash, _ := os.ReadFile(w.crash)
			w.stop()
			p.workers[i] = nil
			atomic.AddInt64(&p.Restarts, 1)
			st := string(crash)
			if len(st) > 4000 {
				st = st[:4000]
			}
			site := "worker died"
			if len(st) > 0 {
				site = firstLine(st)
			}
			return &Trace{ID: job.ID, Calls: []Call{{Outcome: "fatal", Site: site, Stack: st}}}
		}
		var tr Trace
		if err := json.Unmarshal(line, &tr); err != nil {
			return &Trace{ID: job.ID, Err: "decode trace: " + err.Error()}
		}
		if len(tr.Calls) > 0 && tr.Calls[len(tr.Calls)-1].Outcome == "hung" {
			// the worker exits after reporting a hang
			w.stop()
			p.workers[i] = nil
			atomic.AddInt64(&p.Restarts, 1)
		}
		if tr.ID == -1 {
			w.stop()
			p.workers[i] = nil
		}
		return &tr
	}
}

func firstLine(s string) string {
	for i := 0; i < len(s); i++ {
		if s[i] == '\n' {
			return s[:i]
		}
	}
	return s
}

// Map runs all jobs, calling fn (serialised) with each job and its trace.
func (p *Pool) Map(jobs []Job, fn func(j *Job, t *Trace)) {
	var mu sync.Mutex
	var next int64 = -1
	var wg sync.WaitGroup
	for i := 0; i < p.N; i++ {
		wg.Add(1)
		go func(i int) {
			defer wg.Done()
			for {
				k := atomic.AddInt64(&next, 1)
				if int(k) >= len(jobs) {
					return
				}
				j := &jobs[k]
				t := p.runOn(i, j)
				mu.Lock()
				fn(j, t)
				mu.Unlock()
			}
		}(i)
	}
	wg.Wait()
}

// Stream runs jobs produced by gen (until it returns false), calling fn serialised.
func (p *Pool) Stream(gen func() (Job, bool), fn func(j *Job, t *Trace)) {
	var gmu, fmu sync.Mutex
	var wg sync.WaitGroup
	for i := 0; i < p.N; i++ {
		wg.Add(1)
		go func(i int) {
			defer wg.Done()
			for {
				gmu.Lock()
				j, ok := gen()
				gmu.Unlock()
				if !ok {
					return
				}
				t := p.runOn(i, &j)
				fmu.Lock()
				fn(&j, t)
				fmu.Unlock()
			}
		}(i)
	}
	wg.Wait()
}

// RunOne runs a single job on worker 0.
func (p *Pool) RunOne(job *Job) *Trace {
	return p.runOn(0, job)
}
