#!/bin/sh
# Development-time regression: applies every seeded change in turn (mutant_test.sh), runs the check that
# is expected to catch it (quick tier) and prints one line per change. C03-m2 is run against C05.
cd "$(dirname "$0")/.."
# usage: tools/seed_sweep.sh [name-prefix ...]   (default: all)
sel="$*"
for d in seeded/*/; do
  n=$(basename "$d"); id=${n%%-*}
  if [ -n "$sel" ]; then ok=0; for p in $sel; do case "$n" in $p*) ok=1;; esac; done; [ $ok = 1 ] || continue; fi
  [ "$n" = "C03-m2" ] && id=C05
  [ "$n" = "C03-m4" ] && id=C05
  [ "$n" = "C15-m4" ] && id=C20
  out=$(./mutant_test.sh "$(pwd)/$d/patch.diff" "$id" quick 2>&1)
  rc=$(echo "$out" | grep -o "check exit=[0-9]*" | tail -1)
  tests=$(echo "$out" | grep -o "repo tests: [A-Z]*" | tail -1)
  fp=$(echo "$out" | grep -m1 "fingerprint=" | sed 's/ occurrences.*//' | cut -c1-110)
  echo "$n [$id] $tests; $rc; $fp"
done
