#!/usr/bin/env python3
"""Regenerates FINDINGS.md from known_findings.json and the seeded-change table of DESIGN.md
(between the markers <!-- SEEDED-BEGIN --> / <!-- SEEDED-END -->) from seeded/*/meta.json."""
import json, glob, os, re
root = os.path.dirname(os.path.dirname(os.path.abspath(__file__)))
d = json.load(open(root + '/known_findings.json'))
out = ["# Findings on reeflective/readline (generated from known_findings.json)", "",
       "`fixed` entries were repaired in /repo by the named `fix:` commit and suppress nothing; `known` entries are genuine defects recorded rather than repaired (DESIGN.md §11.4): the check prints `KNOWN-FINDING:` for them and exits 0.", ""]
for status in ("known", "fixed"):
    out += ["## " + status, "", "| property | %s | what fails |" % ("fingerprint" if status == "known" else "commit"), "|---|---|---|"]
    for f in sorted([f for f in d['Findings'] if f['Status'] == status], key=lambda f: f['Property']):
        key = ("`%s`" % f['Fingerprint']) if status == "known" else f.get('Commit', '')
        what = f['What'].replace('|', '\\|').replace('\n', ' ')
        if status == "known" and f.get('Witness'):
            what += " (witness: `%s`)" % f['Witness']
        out.append("| %s | %s | %s |" % (f['Property'], key, what))
    out.append("")
open(root + '/FINDINGS.md', 'w').write("\n".join(out))
rows = ["| change | library site (from the sub-agent's notes) | result |", "|---|---|---|"]
for sd in sorted(glob.glob(root + '/seeded/*/')):
    sd = sd.rstrip('/')
    m = json.load(open(sd + '/meta.json'))
    notes = open(sd + '/notes.md').read() if os.path.exists(sd + '/notes.md') else ''
    site = ''
    for l in notes.splitlines():
        l = l.strip()
        if l and not l.startswith('#') and not l.startswith('```'):
            site = l; break
    site = re.sub(r'\s+', ' ', site)[:170].replace('|', '\\|')
    rows.append("| %s | %s | %s |" % (os.path.basename(sd), site, str(m.get('detected_by', '')).replace('|', '\\|')))
p = root + '/DESIGN.md'
s = open(p).read()
if '<!-- SEEDED-BEGIN -->' in s:
    i = s.index('<!-- SEEDED-BEGIN -->') + len('<!-- SEEDED-BEGIN -->'); j = s.index('<!-- SEEDED-END -->')
    s = s[:i] + "\n" + "\n".join(rows) + "\n" + s[j:]
    open(p, 'w').write(s)
import collections, subprocess
byp = collections.Counter(f['Property'] for f in d['Findings'] if f['Status'] == 'fixed')
commits = sorted({f.get('Commit') for f in d['Findings'] if f['Status'] == 'fixed' and f.get('Commit')})
nfix = len(subprocess.run(['git', '-C', '/repo', 'log', '--format=%h', '--grep=^fix:'], capture_output=True, text=True).stdout.split())
summary = "%d findings were repaired (%d distinct commits named in known_findings.json; /repo has %d `fix:` commits in all). By property: %s." % (
    sum(byp.values()), len(commits), nfix, ", ".join("%s %d" % (k, byp[k]) for k in sorted(byp)))
s = open(p).read()
if '<!-- FIXED-SUMMARY-BEGIN -->' in s:
    i = s.index('<!-- FIXED-SUMMARY-BEGIN -->') + len('<!-- FIXED-SUMMARY-BEGIN -->'); j = s.index('<!-- FIXED-SUMMARY-END -->')
    s = s[:i] + "\n" + summary + "\n" + s[j:]
    open(p, 'w').write(s)
print("FINDINGS.md:", len(d['Findings']), "entries; seeded:", len(rows) - 2)
