package checks

import (
	"fmt"
	"os"
	"os/exec"
	"path/filepath"
	"strings"
	"time"

	"verif/internal/harness"
)

// VTXCHECK (development aid, not a property check): cross-checks the harness' terminal
// emulator against tmux. The raw output stream of real sessions is replayed into a
// detached tmux pane of the same size and the visible text and cursor are compared.
func init() {
	Register(&Check{ID: "VTXCHECK", Level: "other", Run: func(c *Ctx) {
		utf := "set convert-meta off\nset input-meta on\nset output-meta on\n"
		keys := []string{"a", "中", "́", "\r", "xxxxxxxxxx", "xxxxxxxxxxx", "\x7f", "\x0b", "\x02", "\x01", "\x0c", "\t", "\x15"}
		var jobs []harness.Job
		for _, w := range []int{11, 20} {
			for _, k1 := range keys {
				for _, k2 := range keys {
					for _, k3 := range []string{"a", "\x02", "\r", "中"} {
						cfg := harness.Config{RC: utf, W: w, H: 12, Prompt: "> ", Multiline: "never", NoHist: true,
							Comps: &harness.CompSpec{Items: []harness.Comp{{Value: "foo", Desc: "d"}, {Value: "fob"}, {Value: "中文"}}}}
						jobs = append(jobs, harness.Job{ID: len(jobs), Cfg: cfg, Calls: [][]harness.Answer{Keys(k1, k2, k3)}, Want: harness.Want{Raw: true, Screen: 1}})
					}
				}
			}
		}
		type res struct {
			raw  string
			snap []string
			cx   int
			cy   int
			w    int
			pend bool
			keys string
		}
		var rs []res
		c.Pool.Map(jobs, func(j *harness.Job, t *harness.Trace) {
			call := LastCall(t)
			if call.After == nil || call.After.Screen == nil {
				return
			}
			s := call.After.Screen
			rs = append(rs, res{call.Raw, s.Lines, s.CX, s.CY, j.Cfg.W, s.PendingWrap, ShowKeys(j.Calls[0])})
		})
		bad := 0
		exec.Command("tmux", "kill-server").Run()
		for i, r := range rs {
			f := filepath.Join(c.Scratch, fmt.Sprintf("raw%d", i))
			// drop the harness' own sync OSC (tmux would ignore it anyway)
			os.WriteFile(f, []byte(r.raw), 0o644)
			name := fmt.Sprintf("v%d", i)
			exec.Command("tmux", "new-session", "-d", "-s", name, "-x", fmt.Sprint(r.w), "-y", "12", "stty raw -echo; cat "+f+"; sleep 30").Run()
			time.Sleep(120 * time.Millisecond)
			out, _ := exec.Command("tmux", "capture-pane", "-t", name, "-p").Output()
			cur, _ := exec.Command("tmux", "display-message", "-t", name, "-p", "#{cursor_x},#{cursor_y}").Output()
			exec.Command("tmux", "kill-session", "-t", name).Run()
			lines := strings.Split(strings.TrimRight(string(out), "\n"), "\n")
			for k := range lines {
				lines[k] = strings.TrimRight(lines[k], " ")
			}
			for len(lines) > 0 && lines[len(lines)-1] == "" {
				lines = lines[:len(lines)-1]
			}
			want := fmt.Sprintf("%d,%d", r.cx, r.cy)
			if r.pend {
				want = fmt.Sprintf("%d,%d", r.cx+1, r.cy)
			}
			got := strings.TrimSpace(string(cur))
			if strings.Join(lines, "\n") != strings.Join(r.snap, "\n") || got != want {
				bad++
				if bad <= 10 {
					fmt.Printf("DISAGREE keys=%s\n  emulator: %q cursor %s\n  tmux:     %q cursor %s\n", r.keys, r.snap, want, lines, got)
				}
			}
		}
		fmt.Printf("emulator vs tmux: %d sessions compared, %d disagreements\n", len(rs), bad)
		c.Evaluations = int64(len(rs))
	}})
}
