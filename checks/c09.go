package checks

import (
	"fmt"
	"strings"
	"time"

	"verif/internal/harness"
)

// C09 — history navigation and search are faithful and non-destructive.
//
// Explicit-state BFS per (history contents H, source kind, in-progress text W, cursor)
// over navigation and search commands (by name, through a generated inputrc), incl.
// incremental search sessions (pattern runes only inside the search minibuffer). No edits
// are in the alphabet, so at every main-loop wait outside a minibuffer the buffer must be
// W or a stored entry. Reference model (exact) for paths made of previous-/next-/
// beginning-of-/end-of-history: list H, text W, index p. Search commands: membership in
// the documented match set. Always: no "history error" hint, and every source's contents
// are unchanged at the end of the session.

var c09Nav = []string{"previous-history", "next-history", "beginning-of-history", "end-of-history"}

var c09Other = []string{"up-line-or-history", "down-line-or-history", "beginning-of-buffer-or-history", "end-of-buffer-or-history",
	"history-search-backward", "history-search-forward", "history-substring-search-backward", "history-substring-search-forward",
	"up-line-or-search", "reverse-search-history", "forward-search-history", "abort"}

type c09Model struct {
	H  []string
	W  string
	Wp string // text before the cursor in W at the start
}

// navExpect returns the set of buffers the exact model allows after the nav-only path.
func (m c09Model) navExpect(path []string) map[string]bool {
	ps := map[int]bool{0: true}
	n := len(m.H)
	for _, a := range path {
		next := map[int]bool{}
		for p := range ps {
			switch a {
			case "move:previous-history":
				if p < n {
					next[p+1] = true
				} else {
					next[p] = true
				}
			case "move:next-history":
				if p > 0 {
					next[p-1] = true
				} else {
					next[p] = true
				}
			case "move:beginning-of-history":
				if n > 0 {
					next[n] = true
				} else {
					next[p] = true
				}
			case "move:end-of-history":
				// the newest entry or the in-progress line (statement: "in order", membership)
				if n > 0 {
					next[1] = true
				}
				next[0] = true
			}
		}
		ps = next
	}
	out := map[string]bool{}
	for p := range ps {
		if p == 0 {
			out[m.W] = true
		} else {
			out[m.H[n-p]] = true
		}
	}
	return out
}

func containsFold(h, pat string) bool {
	if pat == strings.ToLower(pat) {
		return strings.Contains(strings.ToLower(h), pat)
	}
	return strings.Contains(h, pat)
}

func init() {
	Register(&Check{ID: "C09", Level: "model_checking", Run: runC09, Replay: func(c *Ctx, w *Witness) (string, string) {
		var in struct {
			H    []string
			W    string
			Wp   string
			Path []string
			Kind string
		}
		jsonUnmarshal(w.Input, &in)
		t := c.Pool.RunOne(w.Job)
		fp, what := c09Verdict(c09Model{in.H, in.W, in.Wp}, in.Kind, in.Path, t)
		return fmt.Sprintf("keys: %s\n%s\n%s", ShowKeys(w.Job.Calls[0]), what, jsonString(LastCall(t).Waits)), fp
	}})
}

func runePrefix(s string, n int) string {
	r := []rune(s)
	if n > len(r) {
		n = len(r)
	}
	if n < 0 {
		n = 0
	}
	return string(r[:n])
}

// c09Verdict judges the whole path; waits are recorded from the end of the seed preamble,
// one per delivered chunk plus the final one.
func c09Verdict(m c09Model, kind string, path []string, t *harness.Trace) (fp, what string) {
	call := LastCall(t)
	if call.Outcome != "aborted" && call.Outcome != "returned" {
		return "", "not judged (C01): " + call.Outcome + "@" + call.Site
	}
	inH := func(s string) bool {
		for _, h := range m.H {
			if h == s {
				return true
			}
		}
		return false
	}
	var obs []*harness.Obs
	for _, w := range call.Waits {
		obs = append(obs, w.Obs)
	}
	navOnly := true
	for i, o := range obs {
		if o == nil {
			continue
		}
		if strings.Contains(o.Hint, "history error") {
			return "history-error-hint", fmt.Sprintf("after %v the hint shows %q", path[:min(i, len(path))], o.Hint)
		}
		if i > 0 && (!strings.HasPrefix(path[i-1], "move:") || !isNav(path[i-1])) {
			navOnly = false
		}
		if o.Kind != "main" || o.Local != "" {
			continue
		}
		if i == 0 {
			continue
		}
		act := path[i-1]
		parent := obs[i-1]
		// membership at every main-loop wait outside minibuffers
		if o.Line != m.W && !inH(o.Line) && !(parent != nil && parent.Local == "" && o.Line == parent.Line) {
			// a non-incremental search minibuffer also reports through Line(): skip when a hint announces it
			return "buffer-is-neither-in-progress-text-nor-an-entry", fmt.Sprintf("after %v the buffer is %q (W=%q, H=%q)", path[:i], o.Line, m.W, m.H)
		}
		if navOnly {
			if exp := m.navExpect(path[:i]); !exp[o.Line] {
				var es []string
				for e := range exp {
					es = append(es, fmt.Sprintf("%q", e))
				}
				return "navigation-shows-wrong-entry", fmt.Sprintf("after %v the buffer is %q, the model (H=%q, W=%q) allows %s", path[:i], o.Line, m.H, m.W, strings.Join(es, " or "))
			}
		}
		// a command that moved the cursor inside the in-progress text changed the search
		// string: prefix/substring judgement stops there
		cursorMoved := false
		for j := 0; j < i; j++ {
			if obs[j] != nil && obs[j].Local == "" && obs[j].Line == m.W && runePrefix(m.W, obs[j].Pos) != m.Wp {
				cursorMoved = true
			}
		}
		if !cursorMoved && parent != nil && parent.Kind == "main" && parent.Local == "" && o.Line != parent.Line && o.Line != m.W {
			pat := runePrefix(parent.Line, parent.Pos)
			switch act {
			case "move:history-search-backward", "move:history-search-forward":
				// the search string is the text before point, either of the line shown or
				// (the implementation's documented choice when walking) of the in-progress line
				if !strings.HasPrefix(o.Line, pat) && !strings.HasPrefix(o.Line, m.Wp) {
					return "prefix-search-shows-non-matching-entry", fmt.Sprintf("after %v: %s from %q (cursor %d) put %q in the buffer, which does not start with %q", path[:i-1], act, parent.Line, parent.Pos, o.Line, pat)
				}
			case "move:history-substring-search-backward", "move:history-substring-search-forward":
				// (same documented choice as for the prefix searches: when walking, the search string may be
				// the text before point of the in-progress line)
				if !strings.Contains(o.Line, pat) && !strings.Contains(o.Line, m.Wp) {
					return "substring-search-shows-non-matching-entry", fmt.Sprintf("after %v: %s from %q (cursor %d) put %q in the buffer, which does not contain %q", path[:i-1], act, parent.Line, parent.Pos, o.Line, pat)
				}
			}
		}
	}
	// incremental search: when a search minibuffer closes, the entry shown must contain the pattern
	for i := 1; i < len(obs); i++ {
		p, o := obs[i-1], obs[i]
		if p == nil || o == nil {
			continue
		}
		if p.Local == "isearch" && o.Local == "" && o.Kind == "main" && o.Line != m.W && inH(o.Line) && p.Line != "" {
			// leaving the search without a match restores the buffer the search started from, which
			// may itself be an entry reached by walking
			before := ""
			for j := i - 1; j >= 0; j-- {
				if obs[j] != nil && obs[j].Local == "" && obs[j].Kind == "main" {
					before = obs[j].Line
					break
				}
			}
			if o.Line == before {
				continue
			}
			// the incremental search text is a regular expression (documented: it may begin with ^):
			// containment is the right reading only for texts without metacharacters (in vi, C-g is
			// not abort in the minibuffer, it inserts "^G")
			if strings.ContainsAny(p.Line, "^$.*+?()[]{}|\\") {
				continue
			}
			if !containsFold(o.Line, p.Line) && path[i-1] != "key:abort" {
				return "isearch-accepts-non-matching-entry", fmt.Sprintf("after %v: incremental search for %q left %q in the buffer", path[:i], p.Line, o.Line)
			}
		}
	}
	// sources unchanged (the session never accepts a line)
	if call.Outcome == "aborted" {
		for name, got := range call.Hist {
			if !eqStrings(got, m.H) && !(len(got) == 0 && len(m.H) == 0) {
				return "history-source-modified", fmt.Sprintf("after %v source %s holds %q, it held %q", path, name, got, m.H)
			}
		}
	}
	return "", ""
}

func isNav(a string) bool {
	for _, n := range c09Nav {
		if a == "move:"+n {
			return true
		}
	}
	return false
}

func runC09(c *Ctx) {
	quick := c.Quick()
	if quick {
		c.Deadline = c.Start.Add(5 * time.Minute)
	} else {
		c.Deadline = c.Start.Add(60 * time.Minute)
	}
	// the last three histories: (8) entries sharing only the first byte of a multi-byte search text; an entry that a search text with a regexp metacharacter must NOT match
	// ("a." is a literal substring of "a.c" only), and a multi-line entry that is the newest match of q
	hists := [][]string{{}, {"x"}, {"x", "x"}, {"ab", "a", "abc"}, {"a b", "l1\nl2", "a"}, {"p", "pq", "pqr", "q"}, {"a.c", "cat abc"}, {"x", "q1\nq2"}, {"éc", "èb", "zz"}}
	ws := []string{"", "a", "p", "zz", "a.", "éa"}
	kinds := []string{"default", "mem", "file"}
	c.Rule = "explicit-state BFS per (history H, source kind, in-progress text W, cursor at end / after the first character) over navigation and search commands by name (previous/next/beginning/end-of-history, up/down-line-or-history, *-buffer-or-history, history-search-*, history-substring-search-*, up-line-or-search, incremental search sessions with pattern runes a p q + Backspace + Enter/ESC/C-g, vi k j n N, fetch-history); exact list/index reference model on navigation-only paths, membership in the documented match set for searches, no 'history error' hint, sources unchanged. non-trivial = distinct states reached"
	c.Bounds = map[string]any{"histories": hists, "in_progress": ws, "source_kinds": kinds}
	c.Assumptions = []string{"end-of-history may show the newest entry or the in-progress text (statement requires order and membership only)", "no edits while positioned on an entry (that is C07's subject)"}

	for _, mode := range []string{"emacs", "vi-command"} {
		km := mode
		rcAll, probes := allBoundRC(km)
		rc := rcAll
		if mode == "vi-command" {
			rc = "set editing-mode vi\n" + rcAll
		}
		var alpha []Action
		for _, p := range probes {
			name := strings.TrimPrefix(p.Name, "cmd:")
			for _, n := range append(append([]string{}, c09Nav...), c09Other...) {
				if n == name {
					alpha = append(alpha, Action{Name: "move:" + name, Ans: p.Ans})
				}
			}
		}
		// incremental search keys (only enabled inside the search minibuffer), accept/cancel keys
		searchKeys := []Action{Act("key:a", "a"), Act("key:p", "p"), Act("key:q", "q"), Act("key:backspace", "\x7f"), Act("key:esc", "\x1b"), Act("key:abort", "\x07"), Act("key:enter-in-search", "\r"), Act("key:C-r", "\x12"), Act("key:C-s", "\x13")}
		alpha = append(alpha, searchKeys...)
		if mode == "vi-command" {
			alpha = append(alpha, Act("move:k", "k"), Act("move:j", "j"), Act("move:n", "n"), Act("move:N", "N"))
		}
		enabled := func(parent *harness.Obs, a *Action) bool {
			if strings.HasPrefix(a.Name, "key:") {
				// typed keys are edits outside the incremental-search minibuffer
				return parent != nil && parent.Local == "isearch"
			}
			// commands are reached through multi-key probe sequences, which only the
			// full main keymap knows: not inside a search minibuffer / menu
			return parent == nil || (parent.Local == "" && parent.Kind == "main")
		}
		for hi, H := range hists {
			for _, kind := range kinds {
				for wi, W := range ws {
					for _, cur := range []string{"end", "first"} {
						if cur == "first" && len(W) < 2 {
							continue
						}
						if (hi == 6 && wi != 0 && wi != 4) || (hi == 7 && wi != 0) || (wi == 4 && hi != 6) || (hi == 8 && wi != 5) || (wi == 5 && hi != 8) {
							continue // the two special histories are paired with their own in-progress texts only
						}
						depth := 2
						if hi == 7 {
							depth = 3 // C-r, q, Enter
						}
						if !quick {
							depth = 4
						} else if kind == "default" && hi == 5 && wi == 2 && cur == "end" && mode == "emacs" {
							depth = 4 // C-r, p, Backspace, Enter: a search text typed and erased again
						} else if kind == "default" && ((hi == 3 || hi == 5) && (wi == 1 || wi == 2) || hi == 1 && wi == 0) {
							depth = 3 // (one-entry history: C-s, a, ESC)
						} else if kind != "default" && !(hi == 3 && wi == 1) && !(hi == 5 && wi == 2) && !(hi == 1 && wi == 0) {
							continue // quick: other source kinds on three representative (H, W) pairs
						}
						if c.Expired() {
							c.Cap("internal deadline: remaining (H, kind, W) scenarios skipped")
							break
						}
						var pre []harness.Answer
						if W != "" {
							pre = append(pre, Key(W))
						}
						if cur == "first" {
							pre = append(pre, Key("\x01"), Key("\x06"))
						}
						if mode == "vi-command" {
							pre = append(pre, Key("\x1b"))
							if cur == "first" {
								pre = append(pre, Key("0"))
							}
						}
						cfg := harness.Config{RC: rc, W: 60, H: 16, Prompt: "$ ", Hist: []harness.HistSpec{{Kind: kind, Name: "src0", Lines: H}}}
						if hi == 8 {
							// multi-byte text before point (typed as itself under the usual UTF-8 settings): the
							// entry èb shares the first BYTE, not the first character, with the search text é
							cfg.RC = "set convert-meta off\nset input-meta on\nset output-meta on\n" + rc
						}
						m := c09Model{H: H, W: W, Wp: W}
						if cur == "first" {
							m.Wp = runePrefix(W, 1)
						}
						name := fmt.Sprintf("%s/H%d/%s/W=%q/%s", mode, hi, kind, W, cur)
						check := func(sc *Scenario, seed *Seed, path []string, act *Action, job *harness.Job, t *harness.Trace) {
							c.Evaluations++
							full := append(append([]string{}, path...), act.Name)
							if act.Name == "<seed>" {
								full = nil
							}
							fp, what := c09Verdict(m, kind, full, t)
							if fp == "" {
								if strings.HasPrefix(what, "not judged") {
									c.Outcome(what)
								} else {
									c.Outcome("ok")
								}
								return
							}
							c.Outcome(fp)
							if cd, ok := c.cands[fp]; ok {
								cd.count++
								return
							}
							jj := *job
							c.Violate(Witness{Fingerprint: fp, What: fmt.Sprintf("[%s] %s; keys: %s", sc.Name, what, ShowKeys(job.Calls[0])), Engine: "session", Job: &jj,
								Input: jsonRaw(map[string]any{"H": H, "W": W, "Wp": m.Wp, "Path": full, "Kind": kind})}, func() string {
								f, _ := c09Verdict(m, kind, full, c.Pool.RunOne(&jj))
								return f
							})
						}
						sc := &Scenario{Name: name, Cfg: cfg, Seeds: []Seed{{Name: "start", Pre: pre}}, Alphabet: alpha, Depth: depth,
							Want: harness.Want{Hash: 2, Obs: 2, HistAfter: true}, Check: check, Enabled: enabled, WholePath: true, MaxStates: 3000}
						before := c.Transitions
						c.BFS(sc)
						if hi == 3 && wi == 1 {
							c.Sample(map[string]any{"scenario": name, "alphabet": len(alpha), "depth": depth, "transitions": c.Transitions - before})
						}
					}
				}
			}
		}
	}
	c.NontrivialN = c.States
}
