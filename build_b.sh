#!/bin/sh
# Builds the instrumented binary of the schedule explorer (Engine B) from the CURRENT /repo tree:
# AST-rewritten copies of the repository files + virtual packages, through go build -overlay.
set -e
cd "$(dirname "$0")"
export GOFLAGS=-mod=mod GOPROXY=off
mkdir -p bin .scratch
go build -o bin/instrument ./cmd/instrument || { echo "BUILD FAILED (infrastructure error)"; exit 2; }
./bin/instrument /repo "$(pwd)" "$(pwd)/.scratch/overlay" || exit 2
go build -tags "verif verifsched" -overlay .scratch/overlay/overlay.json -o bin/vcheck-b ./cmd/vcheck || { echo "BUILD FAILED (infrastructure error: instrumented build)"; exit 2; }
