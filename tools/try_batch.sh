#!/bin/sh
# usage: tools/try_batch.sh <tag> <PROP>...   runs mutant_test.sh for /tmp/seed-<PROP>-<tag>/m1,m2 against <PROP> quick
tag=$1; shift
cd /verif
for p in "$@"; do for m in m1 m2; do
  f=/tmp/seed-$p-$tag/$m/patch.diff
  [ -f $f ] || { echo "== $p $m: no patch"; continue; }
  echo "== $p $m"
  ./mutant_test.sh $f $p 2>&1 | cut -c1-260
done; done
