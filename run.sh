#!/bin/sh
# Rebuilds vcheck from /verif sources and /repo's *current working tree* (module replace),
# with the verif build tag on, then runs one check.  usage: ./run.sh <ID> <quick|thorough> | replay <file>
# C20 (schedule explorer, Engine B) runs in bin/vcheck-b: the same program built through an
# overlay of mechanically instrumented copies of the repository's files (build_b.sh).
set -e
cd "$(dirname "$0")"
export GOFLAGS=-mod=mod GOPROXY=off
export VERIF_ROOT="${VERIF_ROOT:-$(pwd)}"
# NOTE: GOTOOLCHAIN/GOSUMDB are deliberately left alone: /repo/go.mod needs go1.23.6,
# which the default go switches to offline from the module cache.
mkdir -p bin
engine=a
case "$1" in
  C20) engine=b ;;
  replay) if grep -q '"Property": *"C20"' "$2" 2>/dev/null; then engine=b; fi ;;
esac
if [ "$engine" = b ]; then
  ./build_b.sh || exit 2
  exec ./bin/vcheck-b "$@"
fi
go build -tags verif -o bin/vcheck ./cmd/vcheck || { echo "BUILD FAILED (infrastructure error)"; exit 2; }
exec ./bin/vcheck "$@"
