package checks

import (
	"fmt"
	"os"
	"path/filepath"
	"sort"
	"strings"
	"sync"

	"github.com/reeflective/readline"
)

// C10 — file-backed history survives restarts and crashes (fault enumeration).
//
// Write histories of length <= n over a line alphabet (quotes, backslashes, newlines,
// control characters, multi-byte, U+2028, > 64 KiB, blank, duplicates) go through
// NewHistoryFromFile(path).Write on a real file. After each history the file is
// reopened and compared with the reference model (the list of trimmed, non-empty
// written lines). Crash points: for the last append (thorough: every append), EVERY
// byte offset k between the file size before and after it: a copy of the file is
// truncated at k (a process dying inside write(2) on an O_APPEND file), reopened, then
// one more line is appended through a fresh instance and the file is reopened again.

type c10Line struct{ name, text string }

var c10Alphabet = []c10Line{
	{"plain", "a"},
	{"words", "a b"},
	{"lead-space", " lead"},
	{"quotes", "q\"uo'te\\"},
	{"two-lines", "two\nlines"},
	{"controls", "tab\tctl\x01\x1b"},
	{"multibyte", "é中😀"},
	{"u2028", "x y"},
	{"html", "<&>"},
	{"empty", ""},
	{"blank", "   "},
	{"big70000", strings.Repeat("x", 70000)},
	{"json", "{\"datetime\":\"2020-01-01T00:00:00Z\",\"block\":\"fake\"}"},
	{"plain-again", "a"},
	{"brace-tail", "}"},
}

func c10Reference(lines []string) []string {
	var out []string
	for _, l := range lines {
		if t := strings.TrimSpace(l); t != "" {
			out = append(out, t)
		}
	}
	return out
}

func c10Read(path string) ([]string, error) {
	h, err := readline.NewHistoryFromFile(path)
	if err != nil {
		return nil, err
	}
	var out []string
	for i := 0; i < h.Len(); i++ {
		l, err := h.GetLine(i)
		if err != nil {
			return out, fmt.Errorf("GetLine(%d): %w", i, err)
		}
		out = append(out, l)
	}
	return out, nil
}

func eqStrings(a, b []string) bool {
	if len(a) != len(b) {
		return false
	}
	for i := range a {
		if a[i] != b[i] {
			return false
		}
	}
	return true
}

func short(s string) string {
	if len(s) > 40 {
		return fmt.Sprintf("%q...[%d bytes]", s[:20], len(s))
	}
	return fmt.Sprintf("%q", s)
}

func shortList(l []string) string {
	var p []string
	for _, s := range l {
		p = append(p, short(s))
	}
	return "[" + strings.Join(p, ", ") + "]"
}

type c10Viol struct {
	fp, what string
	names    []string
	cut      int // -1: none
	size     int
}

// c10History runs one write history, returns violations found and counters.
func c10History(dir string, names []string, allAppends bool) (viols []c10Viol, evals int, crashPoints int, capped bool) {
	byName := map[string]string{}
	for _, l := range c10Alphabet {
		byName[l.name] = l.text
	}
	path := filepath.Join(dir, "hist")
	os.Remove(path)
	defer os.Remove(path)
	add := func(fp, what string, cut int) {
		viols = append(viols, c10Viol{fp, what, append([]string{}, names...), cut, len(names)})
	}
	// the file must exist for NewHistoryFromFile to succeed
	os.WriteFile(path, nil, 0o600)
	h, err := readline.NewHistoryFromFile(path)
	if err != nil {
		add("open-empty-file-fails", "NewHistoryFromFile on an empty existing file: "+err.Error(), -1)
		return
	}
	var written []string
	sizes := []int64{0}
	for _, n := range names {
		if _, err := h.Write(byName[n]); err != nil {
			add("write-error/"+n, "Write returned "+err.Error(), -1)
			return
		}
		written = append(written, byName[n])
		st, _ := os.Stat(path)
		sizes = append(sizes, st.Size())
	}
	evals++
	// restart
	got, err := c10Read(path)
	want := c10Reference(written)
	if err != nil {
		add("reopen-error", fmt.Sprintf("history %v: reopen failed: %v", names, err), -1)
		return
	}
	if !eqStrings(got, want) {
		cls := "order-or-text"
		for _, n := range names {
			if n == "big70000" {
				cls = "record-over-64KiB"
			}
		}
		add("reopen-mismatch/"+cls, fmt.Sprintf("history %v: reopened file yields %s, written %s", names, shortList(got), shortList(want)), -1)
		return
	}
	if len(names) == 0 {
		return
	}
	full, _ := os.ReadFile(path)
	first := len(names) - 1
	if allAppends {
		first = 0
	}
	crash := filepath.Join(dir, "crash")
	defer os.Remove(crash)
	for ai := first; ai < len(names); ai++ {
		lo, hi := sizes[ai], sizes[ai+1]
		if lo == hi {
			continue // nothing was appended (blank line)
		}
		completed := c10Reference(written[:ai])
		torn := strings.TrimSpace(written[ai])
		var offs []int64
		if hi-lo > 600 {
			capped = true
			for k := lo; k < lo+64; k++ {
				offs = append(offs, k)
			}
			for k := lo + 65536 - 64; k < lo+65536+64 && k <= hi; k++ {
				offs = append(offs, k)
			}
			for k := hi - 64; k <= hi; k++ {
				offs = append(offs, k)
			}
		} else {
			for k := lo; k <= hi; k++ {
				offs = append(offs, k)
			}
		}
		for _, k := range offs {
			crashPoints++
			evals++
			os.WriteFile(crash, full[:k], 0o600)
			got, err := c10Read(crash)
			where := fmt.Sprintf("history %v, append #%d cut at byte %d of %d", names, ai+1, k-lo, hi-lo)
			if err != nil {
				add("crash/reopen-error", where+": reopen failed: "+err.Error(), int(k))
				continue
			}
			withTorn := append(append([]string{}, completed...), torn)
			var base []string
			switch {
			case eqStrings(got, completed):
				base = completed
			case k >= hi-1 && eqStrings(got, withTorn):
				base = withTorn
			default:
				add("crash/completed-entries-lost-or-altered", fmt.Sprintf("%s: reopened %s, completed entries were %s", where, shortList(got), shortList(completed)), int(k))
				continue
			}
			// durable again
			h2, err := readline.NewHistoryFromFile(crash)
			if err != nil {
				add("crash/reopen-error", where+": second reopen failed: "+err.Error(), int(k))
				continue
			}
			if _, err := h2.Write("after crash"); err != nil {
				add("crash/write-after-crash-error", where+": "+err.Error(), int(k))
				continue
			}
			got2, err := c10Read(crash)
			want2 := append(append([]string{}, base...), "after crash")
			if err != nil || !eqStrings(got2, want2) {
				cls := "crash/append-after-torn-tail-lost"
				if k == lo || k == hi {
					cls = "crash/append-after-clean-tail-lost"
				}
				add(cls, fmt.Sprintf("%s: after appending \"after crash\" through a fresh instance the reopened file yields %s, expected %s", where, shortList(got2), shortList(want2)), int(k))
			}
		}
	}
	return
}

func init() {
	Register(&Check{ID: "C10", Level: "fault_enumeration", Run: runC10, Replay: func(c *Ctx, w *Witness) (string, string) {
		var in struct {
			Names []string
			All   bool
		}
		jsonUnmarshal(w.Input, &in)
		dir := filepath.Join(c.Scratch, "c10replay")
		os.MkdirAll(dir, 0o755)
		viols, _, _, _ := c10History(dir, in.Names, in.All)
		var sb strings.Builder
		fp := ""
		for _, v := range viols {
			fmt.Fprintf(&sb, "%s: %s\n", v.fp, v.what)
			if v.fp == w.Fingerprint || fp == "" {
				fp = v.fp
			}
		}
		return sb.String(), fp
	}})
}

func runC10(c *Ctx) {
	n := 2
	all := false
	if !c.Quick() {
		n = 3
		all = true
	}
	var names []string
	for _, l := range c10Alphabet {
		names = append(names, l.name)
	}
	c.Rule = fmt.Sprintf("all write histories of length <= %d over %d lines %v written through one NewHistoryFromFile instance; reopen and compare with the reference list; crash points = every byte offset of the last append (thorough: of every append), each followed by reopen, one more append through a fresh instance, reopen. non-trivial = crash points strictly inside a record (torn tail)", n, len(names), names)
	c.Bounds = map[string]any{"max_history_len": n, "line_alphabet": names, "crash_points_in_every_append": all}
	c.Assumptions = []string{"a crash inside an append leaves a byte prefix of that append (single write(2) on an O_APPEND file); loss of completed appends through missing fsync on power failure is outside the statement", "for the 70000-byte record only the first 64, the 128 around byte 65536 and the last 65 offsets are cut (cap reported)"}

	var hists [][]string
	var rec func(prefix []string, d int)
	rec = func(prefix []string, d int) {
		hists = append(hists, append([]string{}, prefix...))
		if d == n {
			return
		}
		for _, nm := range names {
			rec(append(prefix, nm), d+1)
		}
	}
	rec(nil, 0)
	sort.SliceStable(hists, func(i, j int) bool { return len(hists[i]) < len(hists[j]) })

	var mu sync.Mutex
	best := map[string]c10Viol{}
	counts := map[string]int{}
	var wg sync.WaitGroup
	nsh := 16
	anyCapped := false
	for sh := 0; sh < nsh; sh++ {
		wg.Add(1)
		go func(sh int) {
			defer wg.Done()
			dir := filepath.Join(c.Scratch, fmt.Sprintf("c10-%d", sh))
			os.MkdirAll(dir, 0o755)
			for i := sh; i < len(hists); i += nsh {
				viols, ev, cp, capped := c10History(dir, hists[i], all)
				mu.Lock()
				c.Evaluations += int64(ev)
				c.NontrivialN += int64(cp)
				anyCapped = anyCapped || capped
				if len(viols) == 0 {
					c.Outcome("ok")
				}
				for _, v := range viols {
					c.Outcome(v.fp)
					counts[v.fp]++
					if old, ok := best[v.fp]; !ok || v.size < old.size {
						best[v.fp] = v
					}
				}
				if i%97 == 5 {
					c.Sample(map[string]any{"history": hists[i], "crash_points": cp})
				}
				mu.Unlock()
			}
		}(sh)
	}
	wg.Wait()
	if anyCapped {
		c.Extra = map[string]any{"note": "offsets inside the 70000-byte record are a stated subset (first 64, 128 around 65536, last 65); all other records: every offset"}
	}
	var fps []string
	for fp := range best {
		fps = append(fps, fp)
	}
	sort.Strings(fps)
	for _, fp := range fps {
		v := best[fp]
		c.Violate(Witness{Fingerprint: fp, Engine: "pure", What: fmt.Sprintf("%s [%d histories]", v.what, counts[fp]), Input: jsonRaw(map[string]any{"Names": v.names, "All": all})}, nil)
		c.cands[fp].count = counts[fp]
	}
}
