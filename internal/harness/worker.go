package harness

import (
	"crypto/sha256"
	"encoding/hex"
	"encoding/json"
	"errors"
	"fmt"
	"io"
	"os"
	"path/filepath"

	"runtime"
	"runtime/debug"
	"strings"
	"sync"
	"sync/atomic"
	"syscall"
	"time"
	"unsafe"

	"github.com/reeflective/readline"
	"github.com/reeflective/readline/inputrc"
	"golang.org/x/sys/unix"

	"verif/internal/dump"
	"verif/internal/vt"
)

// Sentinels used to unwind Readline from the gate.
type abortSentinel struct{}
type spinSentinel struct{ reads int }

const spinLimit = 1000

type worker struct {
	master    int
	slave     int
	term      *vt.Term
	term2     *vt.Term // same stream, other erase-at-margin behaviour (see vt.Term.LaxEraseAtMargin)
	mu        sync.Mutex
	syncCh    chan int
	syncN     int
	raw       []byte
	keepRaw   bool
	nDSR      int
	badCPR    int
	scratch   string
	rcFiles   map[string]string
	ta        []byte // pending type-ahead delivered with the next CPR
	taAfter   bool
	progress  int64 // unix nano of last progress
	progMu    sync.Mutex
	curJob    int
	out       *json.Encoder
	outMu     sync.Mutex
	watchSecs int
	inCall    bool
	outBytes  int64 // bytes of terminal output seen by the emulator (atomic)

	// scripted call state (shared by the gate and the emulator's DSR handler)
	scMu     sync.Mutex
	script   *ScriptPlan
	scPos    int
	scEvents []Event
}

func openPTY() (master, slave int, err error) {
	master, err = unix.Open("/dev/ptmx", unix.O_RDWR|unix.O_NOCTTY|unix.O_CLOEXEC, 0)
	if err != nil {
		return
	}
	// unlock
	var unlock int32
	if _, _, e := unix.Syscall(unix.SYS_IOCTL, uintptr(master), unix.TIOCSPTLCK, uintptr(unsafe.Pointer(&unlock))); e != 0 {
		return 0, 0, e
	}
	n, err := unix.IoctlGetInt(master, unix.TIOCGPTN)
	if err != nil {
		return
	}
	slave, err = unix.Open(fmt.Sprintf("/dev/pts/%d", n), unix.O_RDWR|unix.O_NOCTTY, 0)
	return
}

// WorkerMain is the entry point of a worker process. Jobs arrive as JSON lines on fd 3,
// traces leave on fd 4. fds 0/1/2 become the pty slave.
func WorkerMain() {
	in := os.NewFile(3, "jobs")
	outf := os.NewFile(4, "traces")
	if crash := os.Getenv("VERIF_CRASHFILE"); crash != "" {
		if f, err := os.OpenFile(crash, os.O_CREATE|os.O_WRONLY|os.O_TRUNC, 0o644); err == nil {
			debug.SetCrashOutput(f, debug.CrashOptions{})
		}
	}
	debug.SetMaxStack(256 << 20)
	debug.SetGCPercent(1000) // small live heap, many short-lived allocations per execution

	w := &worker{syncCh: make(chan int, 64), rcFiles: map[string]string{}, out: json.NewEncoder(outf), watchSecs: 60}
	if s := os.Getenv("VERIF_WATCHDOG"); s != "" {
		fmt.Sscan(s, &w.watchSecs)
	}
	w.scratch = os.Getenv("VERIF_SCRATCH")
	if w.scratch == "" {
		fatalf("VERIF_SCRATCH not set")
	}
	os.MkdirAll(w.scratch, 0o755)

	var err error
	w.master, w.slave, err = openPTY()
	if err != nil {
		fatalf("openpty: %v", err)
	}
	for fd := 0; fd < 3; fd++ {
		if err := unix.Dup2(w.slave, fd); err != nil {
			fatalf("dup2: %v", err)
		}
	}
	w.term = vt.New(80, 24)
	w.hookTerm()
	go w.termLoop()
	go w.watchdog()

	os.Setenv("HOME", "/nonexistent")
	os.Setenv("TERM", "xterm")
	os.Setenv("LANG", "C.UTF-8")
	os.Unsetenv("LC_ALL")
	os.Setenv("TMPDIR", w.scratch)
	w.setupEditors()

	dec := json.NewDecoder(in)
	for {
		var job Job
		if err := dec.Decode(&job); err != nil {
			if errors.Is(err, io.EOF) {
				os.Exit(0)
			}
			fatalf("decode job: %v", err)
		}
		st := time.Now()
		tr := w.runJob(&job)
		tr.Micros = time.Since(st).Microseconds()
		w.send(tr)
	}
}

func fatalf(f string, a ...any) {
	if c, err := os.OpenFile("/proc/self/fd/4", os.O_WRONLY, 0); err == nil {
		_ = c
	}
	msg := fmt.Sprintf(f, a...)
	out := os.NewFile(4, "traces")
	json.NewEncoder(out).Encode(&Trace{ID: -1, Err: "worker fatal: " + msg})
	os.Exit(4)
}

func (w *worker) send(tr *Trace) {
	w.outMu.Lock()
	defer w.outMu.Unlock()
	if err := w.out.Encode(tr); err != nil {
		os.Exit(5)
	}
}

func (w *worker) hookTerm() {
	w.term.OnDSR = func(row, col int) {
		reply := []byte(fmt.Sprintf("\x1b[%d;%dR", row, col))
		w.nDSR++
		if w.badCPR > 0 && w.nDSR == w.badCPR {
			reply = []byte("\x1b[99999999999999999999;1R")
		}
		if w.script != nil {
			w.scriptDSR(reply)
			return
		}
		if len(w.ta) > 0 {
			if w.taAfter {
				reply = append(reply, w.ta...)
			} else {
				reply = append(append([]byte{}, w.ta...), reply...)
			}
			w.ta = nil
		}
		unix.Write(w.master, reply)
	}
	w.term.OnOSC = func(s string) {
		if strings.HasPrefix(s, "9999;") {
			var n int
			fmt.Sscan(s[5:], &n)
			select {
			case w.syncCh <- n:
			default:
			}
		}
	}
}

func (w *worker) termLoop() {
	buf := make([]byte, 1<<16)
	for {
		n, err := unix.Read(w.master, buf)
		if n > 0 {
			w.mu.Lock()
			if w.keepRaw {
				w.raw = append(w.raw, buf[:n]...)
			}
			w.term.Write(buf[:n])
			if w.term2 != nil {
				w.term2.Write(buf[:n])
			}
			w.mu.Unlock()
			atomic.AddInt64(&w.outBytes, int64(n))
		}
		if err != nil && err != unix.EINTR && err != unix.EAGAIN {
			return
		}
	}
}

// scriptDefault returns the number of bytes the default plan delivers at a key read:
// the rest of the current logical key.
func (w *worker) scriptDefault() int {
	sum := 0
	for _, l := range w.script.KeyLens {
		sum += l
		if sum > w.scPos {
			return sum - w.scPos
		}
	}
	return len(w.script.Bytes) - w.scPos
}

// scriptDSR answers a cursor-position query of a scripted call: the report, plus the
// type-ahead the plan puts at this event.
func (w *worker) scriptDSR(reply []byte) {
	w.scMu.Lock()
	idx := len(w.scEvents)
	rem := len(w.script.Bytes) - w.scPos
	ev := Event{Kind: "cpr", Remaining: rem, Default: 0, Pos: w.scPos}
	var ta []byte
	if d, ok := w.script.Decisions[idx]; ok && d.N > 0 && d.Mode != "" && rem > 0 {
		n := d.N
		if n > rem {
			n = rem
		}
		ta = append(ta, w.script.Bytes[w.scPos:w.scPos+n]...)
		w.scPos += n
		ev.N, ev.Mode = n, d.Mode
	}
	w.scEvents = append(w.scEvents, ev)
	w.scMu.Unlock()
	switch {
	case len(ta) == 0:
		unix.Write(w.master, reply)
	case ev.Mode == "after":
		unix.Write(w.master, append(append([]byte{}, reply...), ta...))
	case ev.Mode == "own":
		unix.Write(w.master, ta)
		// wait until the library has consumed the type-ahead in a read of its own
		for i := 0; i < 40000; i++ {
			if q, err := unix.IoctlGetInt(w.slave, unix.TIOCINQ); err == nil && q == 0 {
				break
			}
			time.Sleep(50 * time.Microsecond)
		}
		time.Sleep(200 * time.Microsecond)
		unix.Write(w.master, reply)
	default: // "before"
		unix.Write(w.master, append(ta, reply...))
	}
}

// syncTerm waits until the emulator has consumed everything written to the pty so far.
func (w *worker) syncTerm() {
	w.syncN++
	n := w.syncN
	unix.Write(1, []byte(fmt.Sprintf("\x1b]9999;%d\x07", n)))
	for {
		select {
		case got := <-w.syncCh:
			if got == n {
				return
			}
		case <-time.After(30 * time.Second):
			fatalf("emulator sync timeout")
		}
	}
}

func (w *worker) touch() {
	w.progMu.Lock()
	w.progress = time.Now().UnixNano()
	w.progMu.Unlock()
}

// watchdog: generous no-progress timer; classifies the Readline goroutine and exits.
func (w *worker) watchdog() {
	for {
		time.Sleep(500 * time.Millisecond)
		w.progMu.Lock()
		last, in, job := w.progress, w.inCall, w.curJob
		w.progMu.Unlock()
		if !in || last == 0 {
			continue
		}
		if time.Since(time.Unix(0, last)) < time.Duration(w.watchSecs)*time.Second {
			continue
		}
		// three samples of the Readline goroutine, 150 ms apart
		var stacks [3]string
		var first string
		out0 := atomic.LoadInt64(&w.outBytes)
		for i := range stacks {
			buf := make([]byte, 1<<20)
			buf = buf[:runtime.Stack(buf, true)]
			if i == 0 {
				first = string(buf)
			}
			stacks[i] = readlineGoroutine(string(buf))
			time.Sleep(150 * time.Millisecond)
		}
		// terminal output produced while sampling proves the loop is going round
		cls := classifyHang(stacks[:], atomic.LoadInt64(&w.outBytes) != out0)
		buf := []byte(first)
		w.send(&Trace{ID: job, Calls: []Call{{Outcome: "hung", Site: cls, Stack: trimStack(string(buf), 6000)}}})
		os.Exit(3)
	}
}

// readlineGoroutine extracts the stack of the goroutine running Shell.Readline.
func readlineGoroutine(all string) string {
	for _, g := range strings.Split(all, "\n\n") {
		if strings.Contains(g, "readline.(*Shell).Readline") {
			return g
		}
	}
	return ""
}

// classifyHang summarises samples of the Readline goroutine: identical blocked samples
// are a deadlock at the innermost library function; changing samples are a spin, named
// by the command being executed (callee of Shell.execute) or "main-loop" when the loop
// itself goes round without ever reading input.
func classifyHang(samples []string, producing bool) string {
	type info struct{ state, fn, cmd, norm string }
	var infos []info
	for _, g := range samples {
		if g == "" {
			continue
		}
		lines := strings.Split(g, "\n")
		var in info
		if i := strings.Index(lines[0], "["); i >= 0 {
			in.state = strings.TrimSuffix(lines[0][i+1:], "]:")
			if j := strings.Index(in.state, ","); j >= 0 {
				in.state = in.state[:j]
			}
		}
		var funcs []string
		for _, l := range lines[1:] {
			if !strings.HasPrefix(l, "\t") {
				funcs = append(funcs, l)
			}
		}
		clean := func(f string) string {
			if k := strings.LastIndex(f, "("); k > 0 {
				f = f[:k]
			}
			f = strings.TrimSuffix(f, "-fm")
			return strings.TrimPrefix(f, "github.com/reeflective/readline")
		}
		for _, l := range funcs {
			if strings.Contains(l, "reeflective/readline") {
				in.fn = clean(l)
				break
			}
		}
		for i, l := range funcs {
			if strings.Contains(l, "readline.(*Shell).execute(") && i > 0 {
				in.cmd = clean(funcs[i-1])
			}
		}
		var names []string
		for _, f := range funcs {
			names = append(names, clean(f))
		}
		in.norm = in.state + "|" + strings.Join(names, ">")
		infos = append(infos, in)
	}
	if len(infos) == 0 {
		return "unknown"
	}
	same := true
	for _, in := range infos[1:] {
		if in.norm != infos[0].norm {
			same = false
		}
	}
	blocked := infos[0].state != "running" && infos[0].state != "runnable"
	if same && blocked && !producing {
		return fmt.Sprintf("deadlock[%s]@%s", infos[0].state, infos[0].fn)
	}
	for _, in := range infos {
		if in.cmd != "" {
			return "spin@" + in.cmd
		}
	}
	if same && !producing {
		return "spin@" + infos[0].fn
	}
	return "spin@main-loop(never reads input)"
}

func trimStack(s string, n int) string {
	if len(s) > n {
		return s[:n] + "\n...[truncated]"
	}
	return s
}

func (w *worker) setupEditors() {
	dir := filepath.Join(w.scratch, "edbin")
	os.MkdirAll(dir, 0o755)
	// The fake editors read VERIF_EDITOR_MODE at run time.
	script := "#!/bin/sh\nf=\"$1\"\nfor a in \"$@\"; do f=\"$a\"; done\ncase \"$VERIF_EDITOR_MODE\" in\n  keep) exit 0;;\n  empty) : > \"$f\"; exit 0;;\n  append) printf ' edited' >> \"$f\"; exit 0;;\n  fail) exit 1;;\nesac\nexit 0\n"
	for _, n := range []string{"vi", "emacs"} {
		os.WriteFile(filepath.Join(dir, n), []byte(script), 0o755)
	}
	os.Setenv("VERIF_EDBIN", dir)
}

func (w *worker) rcFile(rc string) string {
	if p, ok := w.rcFiles[rc]; ok {
		return p
	}
	sum := sha256.Sum256([]byte(rc))
	p := filepath.Join(w.scratch, "rc-"+hex.EncodeToString(sum[:8]))
	os.WriteFile(p, []byte(rc), 0o644)
	if len(w.rcFiles) > 4096 {
		w.rcFiles = map[string]string{}
	}
	w.rcFiles[rc] = p
	return p
}

// memHist is the harness' own history source: bounds-checked, with a write log.
type memHist struct {
	items  []string
	writes []string
}

func (h *memHist) Write(s string) (int, error) {
	h.items = append(h.items, s)
	h.writes = append(h.writes, s)
	return len(h.items), nil
}
func (h *memHist) GetLine(i int) (string, error) {
	if i < 0 || i >= len(h.items) {
		return "", fmt.Errorf("verif: history index %d out of range [0,%d)", i, len(h.items))
	}
	return h.items[i], nil
}
func (h *memHist) Len() int          { return len(h.items) }
func (h *memHist) Dump() interface{} { return h.items }

type boundSource struct {
	name string
	src  readline.History
	mem  *memHist
}

type callRun struct {
	w          *worker
	sh         *readline.Shell
	answers    []Answer
	idx        int
	want       Want
	waits      []Wait
	nwaits     int
	log        []LogEntry
	eofReads   int
	pending    []byte
	promptLast string
	free       *FreeSpec
	suggest    []string // history entries, when history-autosuggest is on (screen oracle)
}

func (w *worker) runJob(job *Job) (tr *Trace) {
	tr = &Trace{ID: job.ID}
	w.progMu.Lock()
	w.curJob = job.ID
	w.progMu.Unlock()
	cfg := &job.Cfg
	if cfg.W == 0 {
		cfg.W = 80
	}
	if cfg.H == 0 {
		cfg.H = 24
	}
	defer func() {
		if r := recover(); r != nil {
			tr.Err = fmt.Sprintf("harness panic outside Readline: %v\n%s", r, trimStack(string(debug.Stack()), 4000))
		}
	}()

	if job.Sched != nil {
		os.Setenv("INPUTRC", w.rcFile(cfg.RC))
		os.Setenv("VISUAL", "")
		os.Setenv("EDITOR", "")
		tr.Sched = runSched(job.Sched, w.master)
		// leave the tty in its baseline mode whatever the execution did
		unix.IoctlSetInt(w.slave, unix.TCFLSH, unix.TCIFLUSH)
		return tr
	}
	// Terminal: size, termios, input queue, emulator.
	ws := &unix.Winsize{Row: uint16(cfg.H), Col: uint16(cfg.W)}
	if err := unix.IoctlSetWinsize(w.master, unix.TIOCSWINSZ, ws); err != nil {
		tr.Err = "TIOCSWINSZ: " + err.Error()
		return
	}
	w.syncTerm()
	unix.IoctlSetInt(w.slave, unix.TCFLSH, unix.TCIFLUSH)
	if q, _ := unix.IoctlGetInt(w.slave, unix.TIOCINQ); q != 0 {
		tr.Err = fmt.Sprintf("pty input queue not empty at start: %d", q)
		return
	}
	w.mu.Lock()
	w.term = vt.New(cfg.W, cfg.H)
	w.term2 = vt.New(cfg.W, cfg.H)
	w.term2.LaxEraseAtMargin = true
	w.hookTerm()
	w.raw = w.raw[:0]
	w.keepRaw = job.Want.Raw
	w.nDSR, w.badCPR = 0, cfg.BadCPR
	w.ta = nil
	w.mu.Unlock()

	// Environment.
	os.Setenv("INPUTRC", w.rcFile(cfg.RC))
	if cfg.Editor == "" {
		os.Setenv("VISUAL", "")
		os.Setenv("EDITOR", "")
		os.Setenv("PATH", "/usr/bin:/bin")
	} else {
		os.Setenv("VISUAL", "x")
		os.Setenv("EDITOR", "x")
		os.Setenv("VERIF_EDITOR_MODE", cfg.Editor)
		os.Setenv("PATH", os.Getenv("VERIF_EDBIN")+":/usr/bin:/bin")
	}

	var opts []inputrc.Option
	for _, o := range cfg.Opts {
		k, v, _ := strings.Cut(o, "=")
		switch k {
		case "app":
			opts = append(opts, inputrc.WithApp(v))
		case "term":
			opts = append(opts, inputrc.WithTerm(v))
		case "mode":
			opts = append(opts, inputrc.WithMode(v))
		}
	}
	sh := readline.NewShell(opts...)
	run := &callRun{w: w, sh: sh}
	run.promptLast = visibleLastLine(cfg.Prompt)
	if strings.Contains(cfg.RC, "set history-autosuggest on") {
		for _, h := range cfg.Hist {
			run.suggest = append(run.suggest, h.Lines...)
		}
	}

	// Prompts.
	if cfg.Prompt != "" {
		p := cfg.Prompt
		sh.Prompt.Primary(func() string { return p })
	} else {
		sh.Prompt.Primary(func() string { return "" })
	}
	if cfg.RPrompt != "" {
		p := cfg.RPrompt
		sh.Prompt.Right(func() string { return p })
	}
	if cfg.Secondary != "" {
		p := cfg.Secondary
		sh.Prompt.Secondary(func() string { return p })
	}
	if cfg.Transient != "" {
		p := cfg.Transient
		sh.Prompt.Transient(func() string { return p })
	}

	// History sources.
	var bound []boundSource
	if cfg.NoHist {
		sh.History.Delete()
	}
	for _, hs := range cfg.Hist {
		switch hs.Kind {
		case "default":
			src := sh.History.Current()
			for _, l := range hs.Lines {
				src.Write(l)
			}
			bound = append(bound, boundSource{name: "default", src: src})
		case "libmem":
			src := readline.NewInMemoryHistory()
			for _, l := range hs.Lines {
				src.Write(l)
			}
			sh.History.Add(hs.Name, src)
			bound = append(bound, boundSource{name: hs.Name, src: src})
		case "mem":
			m := &memHist{items: append([]string{}, hs.Lines...)}
			sh.History.Add(hs.Name, m)
			bound = append(bound, boundSource{name: hs.Name, src: m, mem: m})
		case "file":
			path := filepath.Join(w.scratch, fmt.Sprintf("hist-%d-%s", job.ID, hs.Name))
			os.WriteFile(path, nil, 0o600)
			src, err := readline.NewHistoryFromFile(path)
			if err != nil {
				tr.Err = "NewHistoryFromFile: " + err.Error()
				return
			}
			for _, l := range hs.Lines {
				src.Write(l)
			}
			// reopen, as an application starting with an existing file does
			if src, err = readline.NewHistoryFromFile(path); err != nil {
				tr.Err = "NewHistoryFromFile: " + err.Error()
				return
			}
			sh.History.Add(hs.Name, src)
			bound = append(bound, boundSource{name: hs.Name, src: src})
			defer os.Remove(path)
		}
	}

	// Completer.
	if cfg.Comps != nil {
		cs := cfg.Comps
		sh.Completer = func(line []rune, cursor int) readline.Completions {
			return buildComps(cs, line, cursor)
		}
	}

	// Multiline.
	switch cfg.Multiline {
	case "backslash":
		sh.AcceptMultiline = func(line []rune) bool {
			return len(line) == 0 || line[len(line)-1] != '\\'
		}
	case "first":
		refused := false
		sh.AcceptMultiline = func(line []rune) bool {
			if !refused {
				refused = true
				return false
			}
			return true
		}
	case "never":
		sh.AcceptMultiline = func(line []rune) bool { return false }
	case "always":
		sh.AcceptMultiline = func(line []rune) bool { return true }
	case "paren":
		sh.AcceptMultiline = func(line []rune) bool {
			d := 0
			for _, r := range line {
				if r == '(' {
					d++
				} else if r == ')' {
					d--
				}
			}
			return d <= 0
		}
	}
	if cfg.Highlight {
		sh.SyntaxHighlighter = func(line []rune) string {
			return strings.ReplaceAll(string(line), "a", "\x1b[31ma\x1b[0m")
		}
	}

	// Probes.
	cmds := map[string]func(){}
	for _, p := range cfg.Probes {
		p := p
		switch p.Kind {
		case "log":
			cmds[p.Name] = func() {
				run.log = append(run.log, LogEntry{Name: p.Name, Caller: string(sh.Keys.Caller()), Wait: run.nwaits})
			}
		case "panic":
			cmds[p.Name] = func() { panic("verif: probe panic") }
		case "seed":
			cmds[p.Name] = func() {
				sh.Line().Set([]rune(p.Arg)...)
				sh.Cursor().Set(p.Pos)
			}
		case "printf":
			cmds[p.Name] = func() { sh.Printf("%s", p.Arg) }
		case "bind":
			// the application changes a binding at run time through the public API:
			// Arg = keymap NUL sequence NUL action; Pos = 1 for a macro
			cmds[p.Name] = func() {
				if f := strings.SplitN(p.Arg, "\x00", 3); len(f) == 3 {
					sh.Config.Bind(f[0], f[1], f[2], p.Pos == 1)
				}
			}
		}
	}
	if len(cmds) > 0 {
		sh.Keymap.Register(cmds)
	}

	// Bind tables.
	for _, km := range cfg.Replace {
		sh.Config.Binds[km] = map[string]inputrc.Bind{}
	}
	for _, b := range cfg.Binds {
		if sh.Config.Binds[b.Keymap] == nil {
			sh.Config.Binds[b.Keymap] = map[string]inputrc.Bind{}
		}
		sh.Config.Binds[b.Keymap][b.Seq] = inputrc.Bind{Action: b.Action, Macro: b.Macro}
	}

	readline.VerifSetStdin(&gate{run: run})

	if job.Want.Hash > 0 {
		tr.InitHash = w.stateHash(sh, true)
	}

	w.mu.Lock()
	w.scMu.Lock()
	w.script, w.scPos, w.scEvents = job.Script, 0, nil
	w.scMu.Unlock()
	w.mu.Unlock()
	if job.Script != nil && len(job.Calls) == 0 {
		job.Calls = [][]Answer{nil}
	}
	if cfg.PreOutput != "" {
		os.Stdout.WriteString(cfg.PreOutput)
		w.syncTerm()
	}
	for _, answers := range cfg.PriorCalls {
		run.answers, run.idx, run.waits, run.nwaits, run.log, run.eofReads, run.pending = answers, 0, nil, 0, nil, 0, nil
		run.want = Want{}
		if pc := w.runCall(run); pc.Outcome != "returned" {
			tr.Err = fmt.Sprintf("prior call did not return: %s %s", pc.Outcome, pc.Err)
			return
		}
	}
	var ttyBase *unix.Termios
	if len(cfg.TtyAlt) > 0 {
		ttyBase, _ = unix.IoctlGetTermios(w.slave, unix.TCGETS)
		defer func() {
			if ttyBase != nil {
				unix.IoctlSetTermios(w.slave, unix.TCSETS, ttyBase)
			}
		}()
	}
	for ci, answers := range job.Calls {
		if ttyBase != nil {
			t := *ttyBase
			if ci < len(cfg.TtyAlt) && cfg.TtyAlt[ci] {
				t.Iflag &^= unix.IXON
				t.Cc[unix.VERASE] = 0x08
			}
			unix.IoctlSetTermios(w.slave, unix.TCSETS, &t)
		}
		run.answers, run.idx, run.waits, run.nwaits, run.log, run.eofReads, run.pending = answers, 0, nil, 0, nil, 0, nil
		run.want = job.Want
		run.free = job.Free
		w.mu.Lock()
		w.raw = w.raw[:0]
		w.mu.Unlock()
		c := w.runCall(run)
		c.Waits, c.NWaits, c.Log = run.waits, run.nwaits, run.log
		if job.Script != nil {
			w.scMu.Lock()
			c.Events = append([]Event{}, w.scEvents...)
			w.scMu.Unlock()
		}
		if job.Want.Raw {
			w.syncTerm()
			w.mu.Lock()
			c.Raw = string(w.raw)
			w.mu.Unlock()
		}
		if job.Want.HistAfter {
			c.Hist = map[string][]string{}
			c.HistWrites = map[string][]string{}
			for _, b := range bound {
				var ls []string
				n := b.src.Len()
				for i := 0; i < n; i++ {
					l, _ := b.src.GetLine(i)
					ls = append(ls, l)
				}
				c.Hist[b.name] = ls
				if b.mem != nil {
					c.HistWrites[b.name] = append([]string{}, b.mem.writes...)
					b.mem.writes = nil
				}
			}
		}
		tr.Calls = append(tr.Calls, c)
		if c.Outcome != "returned" {
			break
		}
	}
	return tr
}

func buildComps(cs *CompSpec, line []rune, cursor int) readline.Completions {
	var raw []readline.Completion
	word := ""
	if cs.ByWord {
		i := cursor
		if i > len(line) {
			i = len(line)
		}
		j := i
		for j > 0 && line[j-1] != ' ' {
			j--
		}
		word = string(line[j:i])
	}
	for _, it := range cs.Items {
		if cs.ByWord && !strings.HasPrefix(it.Value, word) {
			continue
		}
		raw = append(raw, readline.Completion{Value: it.Value, Display: it.Display, Description: it.Desc, Tag: it.Tag})
	}
	c := readline.CompleteRaw(raw)
	if cs.NoSpace != "" {
		c = c.NoSpace([]rune(cs.NoSpace)...)
	}
	if cs.UsePref {
		c = c.Prefix(cs.Prefix)
	}
	if cs.Suffix != "" {
		c = c.Suffix(cs.Suffix)
	}
	if cs.Message != "" {
		c = c.Merge(readline.CompleteMessage(cs.Message))
	}
	return c
}

func (w *worker) runCall(run *callRun) (c Call) {
	var before unix.Termios
	if t, err := unix.IoctlGetTermios(w.slave, unix.TCGETS); err == nil {
		before = *t
	}
	w.progMu.Lock()
	w.inCall = true
	w.progress = time.Now().UnixNano()
	w.progMu.Unlock()
	defer func() {
		w.progMu.Lock()
		w.inCall = false
		w.progMu.Unlock()
		if r := recover(); r != nil {
			switch v := r.(type) {
			case abortSentinel:
				c.Outcome = "aborted"
			case spinSentinel:
				c.Outcome = "spin"
				c.Site = fmt.Sprintf("reads=%d after persistent EOF/error", v.reads)
			default:
				st := string(debug.Stack())
				c.Outcome = "panic"
				c.Err = fmt.Sprint(r)
				c.Site = panicSite(st)
				c.Stack = trimStack(st, 3000)
			}
		}
		if t, err := unix.IoctlGetTermios(w.slave, unix.TCGETS); err == nil {
			c.TermiosSame = *t == before
			if !c.TermiosSame {
				unix.IoctlSetTermios(w.slave, unix.TCSETS, &before)
			}
		}
		c.ShellLine = string(*run.sh.Line())
		if run.want.Hash > 0 || run.want.Screen > 0 || run.want.Obs > 0 {
			wt := Wait{Log: len(run.log)}
			w.syncTerm()
			if run.want.Obs > 0 {
				wt.Obs = observe(run.sh, "after")
			}
			if run.want.Screen > 0 {
				w.mu.Lock()
				wt.Screen = w.term.Snapshot()
				w.mu.Unlock()
			}
			if run.want.Hash > 0 {
				wt.Hash = w.stateHash(run.sh, !run.want.SkipScreen)
			}
			c.After = &wt
		}
	}()
	if run.free != nil {
		stop := make(chan struct{})
		defer close(stop)
		go func(f FreeSpec, sh *readline.Shell) {
			for i := 0; i < f.Winch+f.Printf; i++ {
				select {
				case <-stop:
					return
				case <-time.After(time.Duration(f.EveryMicros) * time.Microsecond):
				}
				if i%2 == 0 && i/2 < f.Winch || i/2 >= f.Printf {
					cols := uint16(40)
					if i%4 == 0 {
						cols = 30
					}
					unix.IoctlSetWinsize(w.master, unix.TIOCSWINSZ, &unix.Winsize{Row: 12, Col: cols})
					syscall.Kill(os.Getpid(), syscall.SIGWINCH)
				} else {
					go sh.Printf("async %d", i)
				}
			}
		}(*run.free, run.sh)
	}
	line, err := run.sh.Readline()
	c.Outcome = "returned"
	c.Line = line
	if err != nil {
		c.Err = err.Error()
	}
	return c
}

// panicSite extracts the innermost library frame below the panic.
func panicSite(stack string) string {
	lines := strings.Split(stack, "\n")
	seenPanic := false
	for _, l := range lines {
		if strings.HasPrefix(l, "\t") {
			continue
		}
		if strings.HasPrefix(l, "panic(") {
			seenPanic = true
			continue
		}
		if !seenPanic {
			continue
		}
		if strings.Contains(l, "reeflective/readline") {
			fn := l
			if k := strings.LastIndex(fn, "("); k > 0 {
				fn = fn[:k]
			}
			return strings.TrimPrefix(fn, "github.com/reeflective/readline")
		}
	}
	return "?"
}

// the path of a file history is a per-worker scratch name, not editor state
var skipFields = map[string]bool{"history.fileHistory.file": true}

func (w *worker) stateHash(sh *readline.Shell, withScreen bool) string {
	h, _ := dump.Hash(sh, skipFields)
	if withScreen {
		w.mu.Lock()
		k := w.term.Snapshot().Key()
		w.mu.Unlock()
		var tio string
		if t, err := unix.IoctlGetTermios(w.slave, unix.TCGETS); err == nil {
			tio = fmt.Sprintf("%x/%x/%x/%x", t.Iflag, t.Oflag, t.Cflag, t.Lflag)
		}
		s := sha256.Sum256([]byte(string(h[:]) + k + tio))
		return hex.EncodeToString(s[:12])
	}
	return hex.EncodeToString(h[:12])
}

func observe(sh *readline.Shell, kind string) *Obs {
	o := &Obs{Kind: kind}
	o.Line = string(*sh.Line())
	cur := *sh.Cursor()
	o.Pos = cur.Pos()
	o.Mark = cur.Mark()
	sel := *sh.Selection()
	o.SelOn = sel.Active()
	if o.SelOn {
		o.SelB, o.SelE = sel.Pos()
	}
	o.Main = string(sh.Keymap.Main())
	o.Local = string(sh.Keymap.Local())
	o.IterSet = sh.Iterations.IsSet()
	o.Kill = string(sh.Buffers.GetKill())
	o.Hint = sh.Hint.Text()
	o.MacroRec = sh.Macros.Recording()
	return o
}

type gate struct{ run *callRun }

func (g *gate) Close() error { return nil }

func inReadKey() bool {
	pcs := make([]uintptr, 24)
	n := runtime.Callers(3, pcs)
	frames := runtime.CallersFrames(pcs[:n])
	for {
		f, more := frames.Next()
		if strings.HasSuffix(f.Function, "core.(*Keys).ReadKey") {
			return true
		}
		if strings.HasSuffix(f.Function, "readline.(*Shell).Readline") {
			return false
		}
		if !more {
			return false
		}
	}
}

func (g *gate) Read(p []byte) (int, error) {
	r := g.run
	w := r.w
	w.touch()

	// Remainder of an over-long chunk.
	if len(r.pending) > 0 {
		n := copy(p, r.pending)
		r.pending = r.pending[n:]
		return n, nil
	}

	var ans Answer
	if w.script != nil {
		w.scMu.Lock()
		idx := len(w.scEvents)
		rem := len(w.script.Bytes) - w.scPos
		if rem == 0 {
			w.scMu.Unlock()
			ans = Answer{End: true}
		} else {
			def := w.scriptDefault()
			n := def
			if d, ok := w.script.Decisions[idx]; ok && d.N > 0 {
				n = d.N
			}
			if n > rem {
				n = rem
			}
			if n > len(p) {
				n = len(p)
			}
			ans = Answer{Bytes: append([]byte{}, w.script.Bytes[w.scPos:w.scPos+n]...)}
			w.scEvents = append(w.scEvents, Event{Kind: "key", Remaining: rem, Default: def, N: n, Pos: w.scPos})
			w.scPos += n
			w.scMu.Unlock()
		}
		// the answer list is not used in script mode
		r.answers = append(r.answers[:0], ans)
		r.idx = 0
	} else if r.idx >= len(r.answers) {
		ans = Answer{End: true}
	} else {
		ans = r.answers[r.idx]
	}

	// Persistent faults answer without a new snapshot after the first time.
	if (ans.Fault == "eof-forever" || ans.Fault == "eio-forever") && r.eofReads > 0 {
		r.eofReads++
		if r.eofReads > spinLimit {
			panic(spinSentinel{r.eofReads})
		}
		if ans.Fault == "eof-forever" {
			return 0, io.EOF
		}
		return 0, syscall.EIO
	}

	// Snapshot.
	last := r.idx >= len(r.answers)-1 || ans.End
	from := r.idx >= r.want.From
	wantObs := (r.want.Obs == 2 && from) || (r.want.Obs == 1 && last)
	wantHash := (r.want.Hash == 2 && from) || (r.want.Hash == 1 && last)
	wantScr := (r.want.Screen == 2 && from) || (r.want.Screen == 1 && last)
	wt := Wait{Log: len(r.log)}
	if wantObs || wantHash || wantScr {
		w.syncTerm()
	}
	if wantObs {
		kind := "main"
		if inReadKey() {
			kind = "arg"
		}
		wt.Obs = observe(r.sh, kind)
	}
	if wantScr {
		w.mu.Lock()
		wt.Screen = w.term.Snapshot()
		w.mu.Unlock()
	}
	if r.want.ScreenCheck && wantObs && wt.Obs != nil && wt.Obs.Kind == "main" {
		w.mu.Lock()
		// (a keyboard macro being recorded shows a persistent hint, a pending numeric argument shows
		// "(arg: n)": Hint.Text() reports neither)
		relaxed := wt.Obs.Hint != "" || wt.Obs.MacroRec || wt.Obs.IterSet || wt.Obs.Local == "menu-select" || wt.Obs.Local == "isearch"
		// with history-autosuggest on, the line is displayed followed by the (dimmed) rest of the most
		// recent history entry it is a prefix of: that is what must be on the screen
		shown := []rune(wt.Obs.Line)
		if r.suggest != nil && wt.Obs.Line != "" && wt.Obs.Local == "" {
			for i := len(r.suggest) - 1; i >= 0; i-- {
				if strings.HasPrefix(r.suggest[i], wt.Obs.Line) {
					shown = []rune(r.suggest[i])
					break
				}
			}
		}
		wt.ScreenVerdict = vt.CheckInput(w.term, r.promptLast, shown, wt.Obs.Pos, relaxed, 5)
		if w.term2 != nil {
			// the picture must be right under BOTH common erase-at-margin behaviours (see vt.Term.LaxEraseAtMargin):
			// a display that is only right on terminals that erase nothing at a pending wrap loses glyphs on xterm
			v2 := vt.CheckInput(w.term2, r.promptLast, shown, wt.Obs.Pos, relaxed, 5)
			if wt.ScreenVerdict != "" && v2 == "" {
				wt.ScreenVerdict = "xterm-erase-at-margin: " + wt.ScreenVerdict
			} else if wt.ScreenVerdict == "" && v2 != "" {
				wt.ScreenVerdict = "no-erase-at-margin: " + v2
			}
		}
		wt.Unknown = append([]string{}, w.term.Unknown...)
		w.mu.Unlock()
	}
	if wantHash {
		wt.Hash = w.stateHash(r.sh, !r.want.SkipScreen)
		if inReadKey() {
			wt.Hash += "/arg"
		}
	}
	if wantObs || wantHash || wantScr {
		r.waits = append(r.waits, wt)
	}
	r.nwaits++

	if ans.End {
		panic(abortSentinel{})
	}
	if len(ans.TypeAhead) > 0 {
		w.mu.Lock()
		w.ta = append([]byte{}, ans.TypeAhead...)
		w.taAfter = ans.TAAfter
		w.mu.Unlock()
	}
	switch ans.Fault {
	case "eof":
		r.idx++
		return 0, io.EOF
	case "eio":
		r.idx++
		return 0, syscall.EIO
	case "eof-forever":
		r.eofReads = 1
		return 0, io.EOF
	case "eio-forever":
		r.eofReads = 1
		return 0, syscall.EIO
	}
	r.idx++
	n := copy(p, ans.Bytes)
	if n < len(ans.Bytes) {
		r.pending = append([]byte{}, ans.Bytes[n:]...)
	}
	return n, nil
}

// visibleLastLine strips SGR sequences and returns the last line of a prompt.
func visibleLastLine(p string) string {
	var sb strings.Builder
	for i := 0; i < len(p); i++ {
		if p[i] == 0x1b && i+1 < len(p) && p[i+1] == '[' {
			j := i + 2
			for j < len(p) && (p[j] < 0x40 || p[j] > 0x7e) {
				j++
			}
			i = j
			continue
		}
		sb.WriteByte(p[i])
	}
	s := sb.String()
	if k := strings.LastIndex(s, "\n"); k >= 0 {
		s = s[k+1:]
	}
	return s
}
