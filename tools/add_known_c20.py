#!/usr/bin/env python3
"""Development-time helper (never run by a check): turns the C20 replay files of the current
fingerprint format into 'known' entries of known_findings.json + known_witnesses/."""
import json, glob, hashlib, os, re, shutil
root = os.path.dirname(os.path.dirname(os.path.abspath(__file__)))
kf = json.load(open(root + '/known_findings.json'))
have = {(f['Property'], f['Fingerprint']) for f in kf['Findings']}
pair = {'main+watcher': "the resize handler's redisplay (display.WatchResize -> Engine.Refresh) and the main loop",
        'main+printf': "a concurrent Shell.Printf and the main loop",
        'printf+watcher': "a concurrent Shell.Printf and the resize handler's redisplay"}
def symptom(k):
    if k.startswith('deadlock{main@core.(*Keys).GetCursorPos:read'):
        return "Readline hangs: the main loop reads the terminal for a cursor-position report that the other goroutine consumed (both had a query outstanding and one read returned both reports), every later key is swallowed by that loop"
    if k.startswith('thread-left-blocked-after-return{'):
        who = 'Printf goroutine' if 'printf@' in k else 'resize goroutine'
        return "the %s stays blocked for ever in GetCursorPos on the Keys.cursor channel: it chose the 'main loop forwards the report' branch (Keys.waiting) but the main loop left its wait (and later replaced the channel) before forwarding" % who
    if k.startswith('screen-inconsistent-after-redisplay/'):
        return "the screen is left inconsistent (%s) although every disturbance had completed before the last redisplay: two redisplays that each assume they own the terminal cursor were interleaved" % k.split('/')[1]
    if k.startswith('result-differs'):
        return "the returned line differs from the undisturbed run: the resize handler regenerated the completion menu (GenerateCached) in the middle of the main loop's menu command"
    return k
n = 0
for f in sorted(glob.glob(root + '/replays/C20/*.json')):
    w = json.load(open(f))
    fp = w['Fingerprint']
    if ' | first overlap ' not in fp or ('C20', fp) in have:
        continue
    k, ov = fp.split(' | first overlap ')
    what = "%s; root cause: no mutual exclusion between %s" % (symptom(k), pair.get(ov, ov))
    name = 'C20-' + re.sub(r'[^A-Za-z0-9]+', '-', k)[:60].strip('-') + '-' + ov.replace('+', '-') + '-' + hashlib.sha256(fp.encode()).hexdigest()[:6] + '.json'
    shutil.copy(f, root + '/known_witnesses/' + name)
    kf['Findings'].append({"Status": "known", "Property": "C20", "Fingerprint": fp, "What": what,
                           "Witness": "known_witnesses/" + name,
                           "Line": "known: property=C20 fingerprint=%s %s" % (fp, what)})
    have.add(('C20', fp)); n += 1
json.dump(kf, open(root + '/known_findings.json', 'w'), indent=1, ensure_ascii=False)
print("added", n)
