// Package harness runs the real reeflective/readline library over a pty owned by the
// harness: a worker process has the pty slave on fds 0/1/2, a gated in-memory reader as
// the library's key input, and an emulator answering cursor-position queries.
package harness

import (
	"encoding/json"

	"verif/internal/vt"
)

// HistSpec describes one history source bound to the shell before the first call.
type HistSpec struct {
	Kind  string   // "default" (library's own in-memory source, filled through Write), "mem" (harness source), "file" (NewHistoryFromFile), "libmem" (NewInMemoryHistory)
	Name  string   // name under which it is bound (ignored for default)
	Lines []string // initial contents, oldest first
}

// Comp is one completion candidate.
type Comp struct {
	Value, Display, Desc, Tag string
}

// CompSpec is the table returned by the harness' Shell.Completer.
type CompSpec struct {
	Items    []Comp
	NoSpace  string // runes passed to NoSpace (suffix matchers)
	Prefix   string // explicit PREFIX
	UsePref  bool
	Suffix   string
	Message  string
	NoFilter bool // return all candidates regardless of the word being completed (the library filters itself)
	ByWord   bool // only return items having the current blank-delimited word as prefix
}

// Probe is a harness-registered command.
type Probe struct {
	Name string // command name to register
	Kind string // "log" (record invocation + caller keys), "panic", "seed" (set line/cursor from Arg), "printf" (call Shell.Printf(Arg)), "bind" (Config.Bind at run time; Arg = keymap NUL sequence NUL action, Pos 1 = macro)
	Arg  string
	Pos  int
}

// BindSpec installs a binding programmatically after NewShell (fresh-map replacement when Replace is set on the Config).
type BindSpec struct {
	Keymap string
	Seq    string // raw key sequence (not escaped)
	Action string
	Macro  bool
}

// Config is everything that defines an execution's environment.
type Config struct {
	RC        string   // inputrc text written to $INPUTRC before NewShell
	Opts      []string // "app=...", "term=...", "mode=..."
	W, H      int
	Prompt    string
	RPrompt   string
	Secondary string
	Transient string
	Hist      []HistSpec
	NoHist    bool // delete all sources
	Comps     *CompSpec
	Multiline string // "" = none; "backslash": AcceptMultiline refuses lines ending in '\'; "first": refuses the first attempt of each call
	Editor    string // "" start fails | "keep" | "empty" | "append"
	Probes    []Probe
	Binds     []BindSpec
	Replace   []string // keymaps whose bind map is replaced by a fresh empty one before Binds are applied
	Highlight bool     // install a syntax highlighter that colours the letter 'a'
	// TtyAlt[i] = true: before call i the harness changes the tty settings as "stty -ixon erase ^H"
	// would (the application's own settings changed between two calls); the call must leave exactly those.
	TtyAlt []bool `json:",omitempty"`
	// BadCPR = n > 0: the n-th cursor-position query of the job is answered with a report whose row
	// does not fit an int (a terminal that answers nonsense once); every other query is answered normally.
	BadCPR int `json:",omitempty"`
	// PreOutput is written to the terminal before the first call (earlier output of the application:
	// the prompt then does not start on the top row of the screen).
	PreOutput string `json:",omitempty"`
	// PriorCalls are complete Readline calls made on the same Shell before Job.Calls; nothing of
	// them is recorded (the state they leave behind is the start state of the job).
	PriorCalls [][]Answer `json:",omitempty"`
}

// Answer is the environment's answer to one wait on the key input.
type Answer struct {
	Bytes []byte `json:"B,omitempty"`
	Fault string `json:"F,omitempty"` // "" | eof | eof-forever | eio | eio-forever
	End   bool   `json:"E,omitempty"` // abort here with the sentinel panic
	// TypeAhead are bytes put into the pty input queue (fd 0) *before* this answer is
	// returned; the library's next cursor-position query reads them together with
	// the report (C05).
	TypeAhead []byte `json:"T,omitempty"`
	TAAfter   bool   `json:"A,omitempty"` // deliver type-ahead after the report rather than before
}

// Want selects what is recorded.
type Want struct {
	Hash        int  // 0 none, 1 last wait of each call + after return, 2 every wait
	Obs         int  // 0 none, 1 last wait only, 2 every wait
	Screen      int  // 0 none, 1 last wait + after return, 2 every wait
	Raw         bool // keep the raw output stream of each call
	HistAfter   bool // record contents of all history sources after each call
	SkipScreen  bool // leave the emulator out of the state hash
	From        int  // mode-2 recording starts at the wait that consumes answer index From
	ScreenCheck bool // evaluate the screen oracle (vt.CheckInput) at every recorded main-loop wait and after the call
}

// Decision is the environment's answer at one read event of a scripted call: how many of
// the not-yet-delivered script bytes arrive in this read; for a cursor-position read, Mode
// says where: "before" / "after" the report in the same read, or "own" (a read of their own
// before the report).
type Decision struct {
	N    int
	Mode string `json:",omitempty"`
}

// ScriptPlan drives one call from a byte script instead of an answer list: every read of
// the library (key read at the gate, or the read inside the cursor-position query) is an
// event, numbered as it occurs; Decisions overrides the default answer at given events
// (default: the rest of the current logical key at a key read, nothing at a query read).
type ScriptPlan struct {
	Bytes     []byte
	KeyLens   []int
	Decisions map[int]Decision
}

// Event is one read event of a scripted call, as it occurred.
type Event struct {
	Kind      string // "key" | "cpr"
	Remaining int    // script bytes not yet delivered when the event occurred
	Default   int    // what the default plan delivers here
	N         int    // what was delivered
	Mode      string `json:",omitempty"`
	Pos       int    // bytes delivered before the event
}

// Job is one execution: a fresh shell, one or more Readline calls, a plan of answers.
type Job struct {
	ID     int
	Cfg    Config
	Calls  [][]Answer
	Want   Want
	Script *ScriptPlan `json:",omitempty"` // when set, the single call is driven by it
	// Sched, when set, is the JSON spec of one execution under the schedule explorer
	// (Engine B, instrumented build only); the result comes back in Trace.Sched.
	Sched json.RawMessage `json:",omitempty"`
	// Free, when set, makes the worker disturb each call from free-running goroutines (real
	// SIGWINCH to itself with alternating window sizes, real concurrent Shell.Printf). Used only by
	// the auxiliary data-race pass (tools/race_pass.sh, -race build): sampling, never a verdict.
	Free *FreeSpec `json:",omitempty"`
}

// FreeSpec: n disturbances of each kind, one every EveryMicros microseconds.
type FreeSpec struct {
	Winch, Printf int
	EveryMicros   int
}

// Obs is what oracles read, all through the public API.
type Obs struct {
	Kind     string // "main" or "arg"
	Line     string
	Pos      int // Cursor().Pos() on a copy
	RawPos   int // what a fresh copy reports before clamping is not observable; same as Pos
	Mark     int
	SelOn    bool
	SelB     int
	SelE     int
	Main     string
	Local    string
	IterSet  bool
	Kill     string
	Hint     string
	MacroRec bool
	CompOn   bool // completion menu active (local keymap menu-select or isearch)
}

// Wait is one snapshot taken when the library asks for key input.
type Wait struct {
	Obs    *Obs     `json:",omitempty"`
	Hash   string   `json:",omitempty"`
	Screen *vt.Snap `json:",omitempty"`
	Log    int      // number of probe log entries so far
	// ScreenVerdict is "" when the screen oracle holds (or was not evaluated), else "<class>: ..."
	ScreenVerdict string   `json:",omitempty"`
	Unknown       []string `json:",omitempty"` // escape sequences the emulator does not model
}

// LogEntry is one probe invocation.
type LogEntry struct {
	Name   string
	Caller string // Keys.Caller() at invocation
	Wait   int    // number of waits seen before the invocation (in this call)
}

// Call is the outcome of one Readline call.
type Call struct {
	Outcome string // returned | panic | aborted | spin | hung | fatal
	Line    string
	Err     string
	Site    string // for panic: value + innermost library frame; for hung: classification
	Stack   string `json:",omitempty"`
	Waits   []Wait
	NWaits  int
	Log     []LogEntry `json:",omitempty"`
	After   *Wait      `json:",omitempty"` // state after the call (hash/obs/screen per Want)
	// Terminal facts after the call
	TermiosSame bool
	Raw         string              `json:",omitempty"`
	Hist        map[string][]string `json:",omitempty"`
	HistWrites  map[string][]string `json:",omitempty"`
	ShellLine   string              // Shell.Line() right after the call
	Events      []Event             `json:",omitempty"` // scripted calls: the read events as they occurred
}

// Trace is the result of one Job.
type Trace struct {
	ID       int
	Calls    []Call
	InitHash string          `json:",omitempty"`
	Err      string          `json:",omitempty"` // harness error (never a violation)
	Micros   int64           // wall time of the execution in the worker
	Sched    json.RawMessage `json:",omitempty"`
}
