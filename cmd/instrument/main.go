// instrument generates the build overlay of the schedule explorer (Engine B) from the
// CURRENT working tree of the repository: rewritten copies of every non-test Go file that
// contains a construct the cooperative scheduler must see, plus the virtual packages
// internal/verifrt, internal/vsync, internal/verifvt and the bridge file of the root
// package. Nothing is written under /repo.
//
//	instrument <repo> <verif> <outdir>   -> <outdir>/overlay.json
//
// A construct it does not understand (a select with a send / default / value-receiving
// case) is an infrastructure error (exit 2): it can only appear in edited code.
package main

import (
	"bytes"
	"encoding/json"
	"fmt"
	"go/ast"
	"go/format"
	"go/parser"
	"go/token"
	"os"
	"path/filepath"
	"strings"
)

const (
	rtPath    = "github.com/reeflective/readline/internal/verifrt"
	vsyncPath = "github.com/reeflective/readline/internal/vsync"
)

func fail(f string, a ...any) {
	fmt.Fprintf(os.Stderr, "instrument: "+f+"\n", a...)
	os.Exit(2)
}

func main() {
	if len(os.Args) != 4 {
		fail("usage: instrument <repo> <verif> <outdir>")
	}
	repo, verif, out := os.Args[1], os.Args[2], os.Args[3]
	os.RemoveAll(out)
	os.MkdirAll(out, 0o755)
	overlay := map[string]string{}
	n := 0
	filepath.Walk(repo, func(path string, info os.FileInfo, err error) error {
		if err != nil {
			return nil
		}
		if info.IsDir() {
			if info.Name() == ".git" || info.Name() == "testdata" {
				return filepath.SkipDir
			}
			return nil
		}
		if !strings.HasSuffix(path, ".go") || strings.HasSuffix(path, "_test.go") {
			return nil
		}
		if strings.HasSuffix(path, "_windows.go") || strings.HasSuffix(path, "_plan9.go") || strings.HasSuffix(path, "gen.go") {
			return nil
		}
		src, err := os.ReadFile(path)
		if err != nil {
			fail("%v", err)
		}
		rel, _ := filepath.Rel(repo, path)
		res, changed := rewrite(rel, src)
		if !changed {
			return nil
		}
		dst := filepath.Join(out, "src", rel)
		os.MkdirAll(filepath.Dir(dst), 0o755)
		if err := os.WriteFile(dst, res, 0o644); err != nil {
			fail("%v", err)
		}
		overlay[path] = dst
		n++
		return nil
	})
	// virtual packages and bridge
	add := func(virtual, real string) {
		if _, err := os.Stat(real); err != nil {
			fail("missing %s", real)
		}
		overlay[filepath.Join(repo, virtual)] = real
	}
	add("internal/verifrt/rt.go", filepath.Join(verif, "rt/verifrt/rt.go"))
	add("internal/verifrt/signal.go", filepath.Join(verif, "rt/verifrt/signal.go"))
	add("internal/vsync/vsync.go", filepath.Join(verif, "rt/vsync/vsync.go"))
	add("internal/verifvt/vt.go", filepath.Join(verif, "internal/vt/vt.go"))
	add("verif_sched_bridge.go", filepath.Join(verif, "rt/bridge/verif_sched_bridge.go"))
	b, _ := json.MarshalIndent(map[string]any{"Replace": overlay}, "", " ")
	if err := os.WriteFile(filepath.Join(out, "overlay.json"), b, 0o644); err != nil {
		fail("%v", err)
	}
	fmt.Printf("instrument: %d repository files rewritten, overlay at %s\n", n, filepath.Join(out, "overlay.json"))
}

type rewriter struct {
	file    string
	fset    *token.FileSet
	isCore  bool
	changed bool
	usesRT  bool
	keep    map[string]bool // imports that must stay referenced
}

func sel(pkg, name string) ast.Expr {
	return &ast.SelectorExpr{X: ast.NewIdent(pkg), Sel: ast.NewIdent(name)}
}

func (r *rewriter) rt(name string, args ...ast.Expr) *ast.CallExpr {
	r.usesRT = true
	r.changed = true
	return &ast.CallExpr{Fun: sel("verifrt", name), Args: args}
}

func isPkgSel(e ast.Expr, pkg string, names ...string) (string, bool) {
	s, ok := e.(*ast.SelectorExpr)
	if !ok {
		return "", false
	}
	id, ok := s.X.(*ast.Ident)
	if !ok || id.Name != pkg || id.Obj != nil {
		return "", false
	}
	for _, n := range names {
		if s.Sel.Name == n {
			return n, true
		}
	}
	return "", false
}

func rewrite(rel string, src []byte) ([]byte, bool) {
	fset := token.NewFileSet()
	f, err := parser.ParseFile(fset, rel, src, parser.ParseComments)
	if err != nil {
		fail("parse %s: %v", rel, err)
	}
	r := &rewriter{file: rel, fset: fset, isCore: strings.HasPrefix(rel, "internal/core/"), keep: map[string]bool{}}
	// import "sync" -> vsync
	for _, imp := range f.Imports {
		if imp.Path.Value == `"sync"` {
			imp.Path.Value = `"` + vsyncPath + `"`
			if imp.Name == nil {
				imp.Name = ast.NewIdent("sync")
			}
			r.changed = true
		}
	}
	r.block(f)
	if !r.changed {
		return nil, false
	}
	if r.usesRT {
		addImport(f, rtPath)
	}
	// keep imports referenced
	for _, imp := range f.Imports {
		p := strings.Trim(imp.Path.Value, `"`)
		var ref ast.Expr
		switch p {
		case "fmt":
			ref = sel("fmt", "Sprint")
		case "os":
			ref = sel("os", "Getpid")
		case "os/signal":
			ref = sel("signal", "Stop")
		}
		if ref != nil && imp.Name == nil {
			f.Decls = append(f.Decls, &ast.GenDecl{Tok: token.VAR, Specs: []ast.Spec{&ast.ValueSpec{Names: []*ast.Ident{ast.NewIdent("_")}, Values: []ast.Expr{ref}}}})
		}
	}
	var buf bytes.Buffer
	if err := format.Node(&buf, fset, f); err != nil {
		fail("print %s: %v", rel, err)
	}
	return buf.Bytes(), true
}

func addImport(f *ast.File, path string) {
	for _, imp := range f.Imports {
		if imp.Path.Value == `"`+path+`"` {
			return
		}
	}
	spec := &ast.ImportSpec{Path: &ast.BasicLit{Kind: token.STRING, Value: `"` + path + `"`}}
	for _, d := range f.Decls {
		if g, ok := d.(*ast.GenDecl); ok && g.Tok == token.IMPORT {
			g.Specs = append(g.Specs, spec)
			if !g.Lparen.IsValid() {
				g.Lparen = g.Pos()
			}
			f.Imports = append(f.Imports, spec)
			return
		}
	}
	f.Decls = append([]ast.Decl{&ast.GenDecl{Tok: token.IMPORT, Specs: []ast.Spec{spec}}}, f.Decls...)
	f.Imports = append(f.Imports, spec)
}

// block rewrites statements and expressions in place.
func (r *rewriter) block(n ast.Node) {
	ast.Inspect(n, func(n ast.Node) bool {
		switch x := n.(type) {
		case *ast.BlockStmt:
			x.List = r.stmts(x.List)
		case *ast.CaseClause:
			x.Body = r.stmts(x.Body)
		case *ast.CommClause:
			x.Body = r.stmts(x.Body)
		}
		return true
	})
	// expressions: a second pass with parent knowledge
	r.exprs(n)
}

func (r *rewriter) stmts(list []ast.Stmt) []ast.Stmt {
	for i, st := range list {
		switch s := st.(type) {
		case *ast.SendStmt:
			list[i] = &ast.ExprStmt{X: r.rt("Send", s.Chan, s.Value)}
		case *ast.GoStmt:
			call := s.Call
			list[i] = &ast.ExprStmt{X: r.rt("Go", &ast.FuncLit{Type: &ast.FuncType{Params: &ast.FieldList{}}, Body: &ast.BlockStmt{List: []ast.Stmt{&ast.ExprStmt{X: call}}}})}
		case *ast.SelectStmt:
			list[i] = r.selectStmt(s)
		case *ast.AssignStmt:
			// v, ok := <-ch
			if len(s.Lhs) == 2 && len(s.Rhs) == 1 {
				if u, ok := s.Rhs[0].(*ast.UnaryExpr); ok && u.Op == token.ARROW {
					s.Rhs[0] = r.rt("Recv2", u.X)
				}
			}
		}
	}
	return list
}

func (r *rewriter) selectStmt(s *ast.SelectStmt) ast.Stmt {
	var chans []ast.Expr
	sw := &ast.SwitchStmt{Body: &ast.BlockStmt{}}
	for i, c := range s.Body.List {
		cc := c.(*ast.CommClause)
		if cc.Comm == nil {
			fail("%s: select with a default case is not supported by the schedule explorer", r.fset.Position(s.Pos()))
		}
		es, ok := cc.Comm.(*ast.ExprStmt)
		if !ok {
			fail("%s: select case that sends or uses the received value is not supported by the schedule explorer", r.fset.Position(cc.Pos()))
		}
		u, ok := es.X.(*ast.UnaryExpr)
		if !ok || u.Op != token.ARROW {
			fail("%s: unsupported select case", r.fset.Position(cc.Pos()))
		}
		chans = append(chans, u.X)
		sw.Body.List = append(sw.Body.List, &ast.CaseClause{List: []ast.Expr{&ast.BasicLit{Kind: token.INT, Value: fmt.Sprint(i)}}, Body: cc.Body})
	}
	sw.Tag = r.rt("Select", chans...)
	return sw
}

// exprs rewrites expressions: <-ch, close(ch), fmt.Print*, signal.Notify, os.Stdin/os.Stderr (core).
func (r *rewriter) exprs(root ast.Node) {
	var visit func(n ast.Node) ast.Node
	replaceExpr := func(e ast.Expr) ast.Expr {
		switch x := e.(type) {
		case *ast.UnaryExpr:
			if x.Op == token.ARROW {
				return r.rt("Recv", x.X)
			}
		case *ast.CallExpr:
			if id, ok := x.Fun.(*ast.Ident); ok && id.Name == "close" && id.Obj == nil && len(x.Args) == 1 {
				return r.rt("Close", x.Args[0])
			}
			if n, ok := isPkgSel(x.Fun, "fmt", "Print", "Printf", "Println"); ok {
				c := r.rt(n, x.Args...)
				c.Ellipsis = x.Ellipsis
				return c
			}
			if _, ok := isPkgSel(x.Fun, "signal", "Notify"); ok {
				c := r.rt("Notify", x.Args...)
				c.Ellipsis = x.Ellipsis
				return c
			}
		case *ast.SelectorExpr:
			if r.isCore {
				if n, ok := isPkgSel(x, "os", "Stdin", "Stderr"); ok {
					r.usesRT, r.changed = true, true
					return sel("verifrt", n)
				}
			}
		}
		return e
	}
	_ = visit
	// generic in-place expression replacement over all expression slots
	ast.Inspect(root, func(n ast.Node) bool {
		switch x := n.(type) {
		case *ast.ExprStmt:
			x.X = replaceExpr(x.X)
		case *ast.AssignStmt:
			for i := range x.Rhs {
				x.Rhs[i] = replaceExpr(x.Rhs[i])
			}
		case *ast.ValueSpec:
			for i := range x.Values {
				x.Values[i] = replaceExpr(x.Values[i])
			}
		case *ast.CallExpr:
			for i := range x.Args {
				x.Args[i] = replaceExpr(x.Args[i])
			}
			x.Fun = replaceExpr(x.Fun)
		case *ast.ReturnStmt:
			for i := range x.Results {
				x.Results[i] = replaceExpr(x.Results[i])
			}
		case *ast.BinaryExpr:
			x.X, x.Y = replaceExpr(x.X), replaceExpr(x.Y)
		case *ast.IfStmt:
			if x.Cond != nil {
				x.Cond = replaceExpr(x.Cond)
			}
		case *ast.SwitchStmt:
			if x.Tag != nil {
				x.Tag = replaceExpr(x.Tag)
			}
		case *ast.SelectorExpr:
			x.X = replaceExpr(x.X)
		case *ast.ParenExpr:
			x.X = replaceExpr(x.X)
		case *ast.IndexExpr:
			x.X, x.Index = replaceExpr(x.X), replaceExpr(x.Index)
		case *ast.KeyValueExpr:
			x.Value = replaceExpr(x.Value)
		case *ast.CompositeLit:
			for i := range x.Elts {
				x.Elts[i] = replaceExpr(x.Elts[i])
			}
		case *ast.DeferStmt:
			if c, ok := replaceExpr(x.Call).(*ast.CallExpr); ok {
				x.Call = c
			}
		case *ast.RangeStmt:
			x.X = replaceExpr(x.X)
		case *ast.UnaryExpr:
			x.X = replaceExpr(x.X)
		case *ast.StarExpr:
			x.X = replaceExpr(x.X)
		}
		return true
	})
}
