package checks

import (
	"fmt"
	"strings"
	"time"

	"verif/internal/harness"
)

// C17 — vi delete removes exactly what yank would copy.
//
// For every buffer (length <= L over an alphabet with blanks, punctuation, quotes,
// brackets, newline, multi-byte) x every cursor position in vi command mode x every
// motion / text object x count form {none, 2 before the operator, 2 after it, 3 after
// it}, TWO executions from the identical planted state are compared: y<motion> and
// d<motion>; likewise v<motion>/V<motion> followed by y and d.
//
// Oracle: after y the buffer is unchanged; the register after d equals the register
// after y; the original buffer == line_d with that register text inserted at some
// position (line-wise dd/yy normalise a trailing newline as the code documents).

var c17Alphabet = []string{"a", "b", " ", ".", "\"", "\n", "é", "(", ")", "'"}

var c17Motions = []string{"h", "l", "w", "b", "e", "W", "B", "E", "0", "$", "^", "fa", "Fa", "ta", "Ta", "%", "ge", "gE",
	"iw", "aw", "iW", "aW", "ia", "aa", "i\"", "a\"", "i'", "a'", "i(", "a(", "i)", "a)", "j", "k", "<same>"}

var c17Visual = []string{"", "h", "l", "w", "b", "e", "$", "0", "iw", "aw", "j", "k"}

type c17Case struct {
	buf    string
	pos    int
	motion string
	count  string // "", "2op", "op2", "op3"
	visual string // "", "v", "V"
	paren  bool   // blink-matching-paren on (the display marks the partner of a bracket under the cursor)
}

func (cs c17Case) String() string {
	s := fmt.Sprintf("buffer=%q cursor=%d motion=%q count=%s visual=%q", cs.buf, cs.pos, cs.motion, cs.count, cs.visual)
	if cs.paren {
		s += " blink-matching-paren=on"
	}
	return s
}

func c17Keys(cs c17Case, op string) []string {
	var ks []string
	motion := func() {
		m := cs.motion
		if m == "<same>" {
			m = op
		}
		for _, r := range m {
			ks = append(ks, string(r))
		}
	}
	if cs.visual != "" {
		ks = append(ks, cs.visual)
		motion()
		ks = append(ks, op)
		return ks
	}
	switch cs.count {
	case "2op":
		ks = append(ks, "2", op)
	case "op2":
		ks = append(ks, op, "2")
	case "op3":
		ks = append(ks, op, "3")
	default:
		ks = append(ks, op)
	}
	motion()
	return ks
}

func c17Job(id int, cs c17Case, op string, rc string) harness.Job {
	if cs.paren {
		rc += "set blink-matching-paren on\n"
	}
	cfg := harness.Config{RC: rc, W: 80, H: 24, Prompt: "> ", NoHist: true}
	cfg.Probes = []harness.Probe{{Name: "verif-seed-b", Kind: "seed", Arg: cs.buf, Pos: cs.pos}}
	ans := Keys("\x1b", c16SeedB)
	from := len(ans)
	ans = append(ans, Keys(c17Keys(cs, op)...)...)
	return harness.Job{ID: id, Cfg: cfg, Calls: [][]harness.Answer{ans}, Want: harness.Want{Obs: 2, From: from}}
}

func lastObs(t *harness.Trace) (first, last *harness.Obs) {
	call := LastCall(t)
	for _, w := range call.Waits {
		if w.Obs != nil {
			if first == nil {
				first = w.Obs
			}
			last = w.Obs
		}
	}
	return
}

func c17Verdict(cs c17Case, ty, td *harness.Trace) (fp, what string, nontrivial bool) {
	cy, cd := LastCall(ty), LastCall(td)
	if cy.Outcome != "aborted" || cd.Outcome != "aborted" {
		return "", fmt.Sprintf("not judged (C01): %s@%s / %s@%s", cy.Outcome, cy.Site, cd.Outcome, cd.Site), false
	}
	y0, y1 := lastObs(ty)
	d0, d1 := lastObs(td)
	if y0 == nil || d0 == nil || y0.Line != cs.buf || d0.Line != cs.buf {
		return "", "not judged: planted state not established", false
	}
	cls := "motion:" + cs.motion
	if cs.visual != "" {
		cls = "visual-" + cs.visual + ":" + cs.motion
	}
	// both executions must have completed the operator (back in command mode, no local keymap)
	if y1.Kind != "main" || d1.Kind != "main" || y1.Local != "" || d1.Local != "" {
		if (y1.Kind != d1.Kind) || (y1.Local != d1.Local) {
			return "", fmt.Sprintf("not judged: operator still pending in one execution (y: %s/%s, d: %s/%s)", y1.Kind, y1.Local, d1.Kind, d1.Local), false
		}
		return "", "", false // motion invalid here in both: nothing happened
	}
	if y1.Line != cs.buf {
		return "yank-changes-buffer/" + cls, fmt.Sprintf("%s: y changed the buffer into %q", cs, y1.Line), true
	}
	if d1.Main != "vi-command" && d1.Main != "vi-move" && d1.Main != "vi" {
		return "", "not judged: delete left command mode", false
	}
	if d1.Line == cs.buf && y1.Kill == "" && d1.Kill == "" {
		return "", "", false
	}
	nontrivial = true
	ky, kd := y1.Kill, d1.Kill
	if ky != kd {
		// line-wise operations document a trailing newline normalisation
		if !(strings.TrimSuffix(ky, "\n") == strings.TrimSuffix(kd, "\n") && (cs.motion == "<same>" || cs.visual == "V" || cs.motion == "j" || cs.motion == "k")) {
			return "delete-and-yank-registers-differ/" + cls, fmt.Sprintf("%s: y copied %q but d removed %q (buffer after d: %q)", cs, ky, kd, d1.Line), true
		}
	}
	if !insertedAt(d1.Line, kd, cs.buf) {
		// line-wise: the register may carry a newline that was at the other end
		alt := strings.TrimSuffix(kd, "\n")
		if !(insertedAt(d1.Line, alt, cs.buf) || insertedAt(d1.Line, "\n"+alt, cs.buf) || insertedAt(d1.Line, alt+"\n", cs.buf)) {
			return "delete-touches-rest-of-buffer/" + cls, fmt.Sprintf("%s: d left %q with register %q: the original is not this buffer plus the register text", cs, d1.Line, kd), true
		}
	}
	return "", "", true
}

func init() {
	Register(&Check{ID: "C17", Level: "exploration", Run: runC17, Replay: func(c *Ctx, w *Witness) (string, string) {
		var in struct {
			Buf                   string
			Pos                   int
			Motion, Count, Visual string
			Paren                 bool
		}
		jsonUnmarshal(w.Input, &in)
		cs := c17Case{in.Buf, in.Pos, in.Motion, in.Count, in.Visual, in.Paren}
		ty := c.Pool.RunOne(&w.Jobs[0])
		td := c.Pool.RunOne(&w.Jobs[1])
		fp, what, _ := c17Verdict(cs, ty, td)
		_, y1 := lastObs(ty)
		_, d1 := lastObs(td)
		return fmt.Sprintf("%s\nafter y: %s\nafter d: %s", what, jsonString(y1), jsonString(d1)), fp
	}})
}

func runC17(c *Ctx) {
	L := 2
	if !c.Quick() {
		L = 3
		c.Deadline = c.Start.Add(45 * time.Minute)
	}
	bufs := c02Strings(c17Alphabet, L)
	// a few longer structured buffers
	bufs = append(bufs, "foo bar", "a.b c", "x (a b) y", "f(ab) x", "say \"hi there\" ok", "a 'b c' d", "ab\ncd\nef", "é中 a")
	c.Rule = fmt.Sprintf("all buffers of length <= %d over %q (+7 structured buffers) x every cursor position x %d motions/text objects x 4 count forms in operator-pending mode, and v/V + %d motions; buffers with brackets again with blink-matching-paren on; two executions (y..., d...) from the identical planted state compared. non-trivial = distinct cases where the operator copied or removed something", L, c17Alphabet, len(c17Motions), len(c17Visual))
	c.Bounds = map[string]any{"max_len": L, "alphabet": c17Alphabet, "motions": c17Motions, "visual_motions": c17Visual, "counts": []string{"none", "2 before operator", "2 after operator", "3 after operator"}}
	c.Assumptions = []string{"line-wise registers (dd/yy, V, j/k) may differ by one trailing newline, as the code documents"}
	rc, _ := c16RC("vi")

	var cases []c17Case
	for _, b := range bufs {
		n := len([]rune(b))
		maxPos := n - 1
		if maxPos < 0 {
			maxPos = 0
		}
		for pos := 0; pos <= maxPos; pos++ {
			for _, m := range c17Motions {
				for _, cnt := range []string{"", "2op", "op2", "op3"} {
					cases = append(cases, c17Case{buf: b, pos: pos, motion: m, count: cnt})
				}
			}
			for _, m := range c17Visual {
				cases = append(cases, c17Case{buf: b, pos: pos, motion: m, visual: "v"})
			}
			for _, m := range []string{"", "j", "k"} {
				cases = append(cases, c17Case{buf: b, pos: pos, motion: m, visual: "V"})
			}
			if strings.ContainsAny(b, "()") {
				// the same with bracket matching on: the partner of a bracket under the cursor is marked
				// on the display while the operator runs
				for _, m := range c17Motions {
					cases = append(cases, c17Case{buf: b, pos: pos, motion: m, paren: true})
				}
				for _, m := range c17Visual {
					cases = append(cases, c17Case{buf: b, pos: pos, motion: m, visual: "v", paren: true})
				}
			}
		}
	}
	pending := map[int]*harness.Trace{}
	next := 0
	gen := func() (harness.Job, bool) {
		if next >= 2*len(cases) || (next%8192 == 0 && c.Expired()) {
			return harness.Job{}, false
		}
		cs := cases[next/2]
		op := "y"
		if next%2 == 1 {
			op = "d"
		}
		j := c17Job(next, cs, op, rc)
		next++
		return j, true
	}
	c.Pool.Stream(gen, func(j *harness.Job, t *harness.Trace) {
		if t.Err != "" {
			c.HarnessError(t.Err)
			return
		}
		other, ok := pending[j.ID^1]
		if !ok {
			pending[j.ID] = t
			return
		}
		delete(pending, j.ID^1)
		ty, td := t, other
		if j.ID%2 == 1 {
			ty, td = other, t
		}
		cs := cases[j.ID/2]
		c.Evaluations++
		fp, what, non := c17Verdict(cs, ty, td)
		if non {
			c.NontrivialN++
		}
		if c.Evaluations%9973 == 5 {
			_, y1 := lastObs(ty)
			_, d1 := lastObs(td)
			c.Sample(map[string]any{"case": cs.String(), "after_y": y1, "after_d": d1})
		}
		if fp == "" {
			switch {
			case strings.HasPrefix(what, "not judged"):
				k := what
				if i := strings.Index(k, "("); i > 0 && strings.HasPrefix(k, "not judged: operator") {
					k = k[:i]
				}
				c.Outcome(k)
				if c.Outcomes[k] == 1 {
					c.Sample(map[string]any{"not_judged": what, "case": cs.String()})
				}
			case non:
				c.Outcome("ok/same-text")
			default:
				c.Outcome("ok/motion-does-nothing")
			}
			return
		}
		c.Outcome(fp)
		if cd, ok := c.cands[fp]; ok {
			cd.count++
			return
		}
		jy, jd := c17Job(0, cs, "y", rc), c17Job(1, cs, "d", rc)
		c.Violate(Witness{Fingerprint: fp, What: what, Engine: "session", Jobs: []harness.Job{jy, jd},
			Input: jsonRaw(map[string]any{"Buf": cs.buf, "Pos": cs.pos, "Motion": cs.motion, "Count": cs.count, "Visual": cs.visual, "Paren": cs.paren})}, func() string {
			f, _, _ := c17Verdict(cs, c.Pool.RunOne(&jy), c.Pool.RunOne(&jd))
			return f
		})
	})
	if next < 2*len(cases) {
		c.Cap(fmt.Sprintf("internal deadline: %d of %d cases run", next/2, len(cases)))
	}
}
