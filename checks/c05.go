package checks

import (
	"fmt"
	"sort"
	"strings"
	"time"

	"verif/internal/harness"
)

// C05 — the result does not depend on how input is chunked or timed.
//
// For every key script B of a corpus, delivery plans are enumerated: every read of the
// library (key read, or the read inside the cursor-position query) is a choice point "how
// many of the not-yet-delivered bytes arrive in this read" (>= 1 at a key read; >= 0 at a
// query read, before or after the report in the same read, or in a read of their own).
// Default plan: one logical key per key read, nothing at query reads. All plans with
// <= D deviations are explored (deviation-bounded search, re-running the real loop from
// a fresh Shell for every plan), plus the two extreme plans (whole B in one read; one byte
// per read). Oracle (differential): (line, err) of every plan == those of the default plan;
// a plan under which the call neither returns nor asks for input again is a violation too.

type c05Script struct {
	name string
	mode string // emacs | vi
	keys []string
	comp bool
}

func c05Corpus(quick bool) []c05Script {
	var out []c05Script
	em := []string{"a", "é", "中", "\x01", "\x0b", "\x1bf", "\x1b2", "\x1b[C", "\x1b[D", "\x16x", "\x1da", "\t", "b", " ", "\x02", "\x17", "\x19"}
	if quick {
		em = []string{"a", "é", "中", "\x01", "\x1bf", "\x1b[D", "\x16x", "\x1da", "\t", "\x02", "\x0b", "\x19"}
	}
	// all scripts of <= n keys, each ending in Enter
	n := 3
	if quick {
		n = 2
	}
	var rec func(p []string, d int)
	rec = func(p []string, d int) {
		if len(p) > 0 {
			comp := false
			for _, k := range p {
				if k == "\t" {
					comp = true
				}
			}
			out = append(out, c05Script{name: "", mode: "emacs", keys: append(append([]string{}, p...), "\r"), comp: comp})
		}
		if d == n {
			return
		}
		for _, k := range em {
			rec(append(p, k), d+1)
		}
	}
	rec(nil, 0)
	// longer hand-written emacs scripts: macros, paste then edit, completion then text
	out = append(out,
		c05Script{mode: "emacs", keys: []string{"a", "b", " ", "c", "d", "\x01", "\x1bf", "X", "\r"}},
		c05Script{mode: "emacs", keys: []string{"\x18(", "a", "\x02", "b", "\x18)", "\x18e", "\r"}},
		c05Script{mode: "emacs", keys: []string{"f", "\t", "\t", "x", "y", "\r"}, comp: true},
		c05Script{mode: "emacs", keys: []string{"f", "o", "\t", "a", "b", "c", "\r"}, comp: true},
		c05Script{mode: "emacs", keys: []string{"a", "\x1b[D", "\x1b[D", "b", "\x1b[C", "c", "\r"}},
		c05Script{mode: "emacs", keys: []string{"x", "y", "\x12", "o", "\x07", "z", "\r"}},
		// multi-byte argument keys (character-search, quoted-insert), an interrupt followed by more keys
		c05Script{mode: "emacs", keys: []string{"a", "é", "b", "\x01", "\x1d", "é", "X", "\r"}},
		c05Script{mode: "emacs", keys: []string{"\x16", "中", "a", "\r"}},
		c05Script{mode: "emacs", keys: []string{"a", "b", "\x03", "c", "d", "\r"}},
		// keys fed back by a command (upper-case meta key, macro replay) followed by a multi-byte character
		c05Script{mode: "emacs", keys: []string{"a", "b", " ", "c", "\x1bB", "é", "\r"}},
		c05Script{mode: "emacs", keys: []string{"\x18(", "a", "\x18)", "\x18e", "中", "b", "\r"}},
	)
	vi := [][]string{
		{"i", "a", "\x1b", "\r"}, {"a", "b", "\x1b", "h", "x", "\r"}, {"a", "b", "a", "\x1b", "0", "f", "a", "x", "\r"},
		{"a", "b", "\x1b", "r", "z", "\r"}, {"a", " ", "b", "\x1b", "0", "d", "w", "\r"}, {"a", "b", "c", "\x1b", "0", "2", "l", "x", "\r"},
		{"a", " ", "b", "\x1b", "0", "\"", "a", "y", "w", "P", "\r"}, {"a", "\x1b", "q", "a", "x", "q", "u", "@", "a", "\r"},
		{"a", "b", "\x1b", "v", "h", "d", "\r"}, {"é", "中", "\x1b", "h", "x", "\r"}, {"a", "b", "\x1b", "c", "w", "z", "\x1b", "\r"},
		{"a", "é", "b", "\x1b", "0", "f", "é", "x", "\r"}, {"a", "b", "\x1b", "r", "中", "\r"}, {"a", "\x03", "b", "\r"},
	}
	for _, k := range vi {
		out = append(out, c05Script{mode: "vi", keys: k})
	}
	for i := range out {
		var ns []string
		for _, k := range out[i].keys {
			ns = append(ns, fmt.Sprintf("%q", k))
		}
		out[i].name = out[i].mode + ":" + strings.Join(ns, " ")
	}
	return out
}

func (s c05Script) bytes() ([]byte, []int) {
	var b []byte
	var lens []int
	for _, k := range s.keys {
		b = append(b, k...)
		lens = append(lens, len(k))
	}
	return b, lens
}

func c05Job(id int, s c05Script, dec map[int]harness.Decision) harness.Job {
	rc := modeRC(s.mode) + "set convert-meta off\nset input-meta on\nset output-meta on\n"
	cfg := harness.Config{RC: rc, W: 60, H: 12, Prompt: "$ ", Hist: []harness.HistSpec{{Kind: "default", Lines: []string{"one", "two words"}}}}
	if s.comp {
		cfg.Comps = &harness.CompSpec{Items: []harness.Comp{{Value: "foo"}, {Value: "fob"}}, ByWord: true}
	}
	b, lens := s.bytes()
	return harness.Job{ID: id, Cfg: cfg, Script: &harness.ScriptPlan{Bytes: b, KeyLens: lens, Decisions: dec}}
}

type c05Outcome struct {
	outcome, line, err, site string
}

func c05Out(t *harness.Trace) c05Outcome {
	c := LastCall(t)
	return c05Outcome{c.Outcome, c.Line, c.Err, c.Site}
}

// alternatives at one event (bounded menu; the default answer is excluded)
func c05Alternatives(s c05Script, ev harness.Event) []harness.Decision {
	b, lens := s.bytes()
	_ = b
	// length of the logical key starting at/after ev.Pos and of the next one
	sum, cur, next := 0, 0, 0
	for i, l := range lens {
		if sum+l > ev.Pos {
			cur = sum + l - ev.Pos
			if i+1 < len(lens) {
				next = lens[i+1]
			}
			break
		}
		sum += l
	}
	cands := map[int]bool{}
	add := func(n int) {
		if n >= 1 && n <= ev.Remaining {
			cands[n] = true
		}
	}
	add(1)
	add(cur - 1)
	add(cur)
	add(cur + 1)
	add(cur + next)
	add(ev.Remaining)
	var ns []int
	for n := range cands {
		ns = append(ns, n)
	}
	sort.Ints(ns)
	var out []harness.Decision
	for _, n := range ns {
		if ev.Kind == "key" {
			if n != ev.Default {
				out = append(out, harness.Decision{N: n})
			}
			continue
		}
		for _, m := range []string{"before", "after", "own"} {
			out = append(out, harness.Decision{N: n, Mode: m})
		}
	}
	return out
}

// c05SplitsAfterEsc reports whether the plan changes a read boundary directly after an ESC
// byte with respect to the default plan (a lone ESC glued to the next key, or an
// ESC-prefixed sequence cut after its ESC). In vi modes a lone ESC and an ESC prefix differ
// only by timing, so such plans are excluded there by the statement.
func c05SplitsAfterEsc(s c05Script, events []harness.Event) bool {
	b, lens := s.bytes()
	defBound := map[int]bool{}
	sum := 0
	for _, l := range lens {
		sum += l
		defBound[sum] = true
	}
	planBound := map[int]bool{}
	for _, ev := range events {
		if ev.N > 0 {
			planBound[ev.Pos+ev.N] = true
		}
	}
	// bytes delivered through a cursor-position read
	cprByte := map[int]bool{}
	for _, ev := range events {
		if ev.Kind == "cpr" {
			for i := ev.Pos; i < ev.Pos+ev.N; i++ {
				cprByte[i] = true
			}
		}
	}
	for p := 0; p+1 < len(b); p++ {
		if b[p] != 0x1b {
			continue
		}
		if defBound[p+1] != planBound[p+1] {
			return true
		}
		// the byte after a lone ESC arriving while the terminal is being queried reaches the
		// key buffer before the ESC has been dispatched: same timing ambiguity
		if defBound[p+1] && cprByte[p+1] {
			return true
		}
	}
	return false
}

func init() {
	Register(&Check{ID: "C05", Level: "model_checking", Run: runC05, Replay: func(c *Ctx, w *Witness) (string, string) {
		t0 := c.Pool.RunOne(&w.Jobs[0])
		t1 := c.Pool.RunOne(&w.Jobs[1])
		a, b := c05Out(t0), c05Out(t1)
		fp := ""
		if a != b {
			fp = w.Fingerprint
		}
		return fmt.Sprintf("default plan: %+v\n  events: %s\ndeviating plan: %+v\n  events: %s", a, jsonString(LastCall(t0).Events), b, jsonString(LastCall(t1).Events)), fp
	}})
}

func c05Class(s c05Script, dec map[int]harness.Decision, events []harness.Event, def, got c05Outcome) string {
	kind := "result-differs"
	switch {
	case got.outcome == "hung":
		kind = "hangs"
	case got.outcome == "panic":
		kind = "panics"
	case got.outcome == "aborted" && def.outcome == "returned":
		kind = "keys-lost(call-does-not-return)"
	case len(got.line) < len(def.line):
		kind = "keystroke-lost"
	case len(got.line) > len(def.line):
		kind = "keystroke-duplicated-or-reinterpreted"
	default:
		kind = "keystroke-reordered-or-reinterpreted"
	}
	where := "chunking"
	for _, ev := range events {
		if ev.Kind == "cpr" && ev.N > 0 {
			where = "typeahead-with-cursor-report(" + ev.Mode + ")"
		}
	}
	// finer class for chunking: what the deviating read cut
	if where == "chunking" {
		b, lens := s.bytes()
		bounds := map[int]bool{}
		sum := 0
		for _, l := range lens {
			sum += l
			bounds[sum] = true
		}
		mid, multi := false, false
		for _, ev := range events {
			if ev.Kind == "key" && ev.N > 0 {
				end := ev.Pos + ev.N
				if !bounds[end] && end < len(b) {
					mid = true
				}
				if ev.N > ev.Default {
					multi = true
				}
			}
		}
		switch {
		case mid:
			where = "chunk-cut-inside-a-key"
		case multi:
			where = "several-keys-in-one-read"
		}
	}
	if s.mode == "emacs" && c05SplitsAfterEsc(s, events) {
		b, _ := s.bytes()
		for i := 0; i < len(b); i++ {
			if b[i] == '\t' || b[i] == 0x12 || b[i] == 0x13 {
				return "lone-esc-cancels-active-menu-or-search/emacs"
			}
		}
	}
	return kind + "/" + where + "/" + s.mode
}

func runC05(c *Ctx) {
	quick := c.Quick()
	D := 2
	if quick {
		c.Deadline = c.Start.Add(8 * time.Minute)
	} else {
		D = 3
		c.Deadline = c.Start.Add(90 * time.Minute)
	}
	corpus := c05Corpus(quick)
	c.Rule = fmt.Sprintf("for each of %d key scripts (all emacs scripts of <= %d keys over a key alphabet with printable, multi-byte, control, ESC-prefixed, CSI, quoted-insert / character-search arguments, TAB with a 2-candidate completer; + hand-written longer emacs and vi scripts), all delivery plans with <= %d deviations from the default plan over a bounded menu per read event (1 byte, key-1, key, key+1, key+next key, all remaining; at cursor-position reads x {before, after, own read}) + whole-script-in-one-read + one-byte-per-read; differential oracle against the default plan. state = (script, plan); transition = one read event answered. non-trivial = distinct deviating plans executed", len(corpus), map[bool]int{true: 2, false: 3}[quick], D)
	c.Assumptions = []string{"in vi modes plans whose delivery ends directly after an ESC byte are excluded (statement)", "terminal replies to the cursor-position query are immediate; only the position of type-ahead relative to the report varies"}
	c.Bounds = map[string]any{"scripts": len(corpus), "max_deviations": D}

	type node struct {
		si   int
		dec  map[int]harness.Decision
		devs int
		last int // index of the last deviating event
	}
	defaults := make([]c05Outcome, len(corpus))
	defEvents := make([][]harness.Event, len(corpus))
	level := []node{}
	for i := range corpus {
		level = append(level, node{si: i, dec: map[int]harness.Decision{}, devs: 0, last: -1})
	}
	// extreme plans are expressed as decisions too: handled after the default run
	for depth := 0; depth <= D && len(level) > 0; depth++ {
		if c.Expired() {
			c.Cap(fmt.Sprintf("internal deadline: plans with %d deviations not (fully) explored", depth))
			break
		}
		// in the quick tier the deepest level is explored for the hand-written scripts and every 7th generated one
		var next []node
		whole := level
		expired := false
		for off := 0; off < len(whole) && !expired; off += 20000 {
			if off > 0 && c.Expired() {
				c.Cap(fmt.Sprintf("internal deadline: %d of %d plans with %d deviations explored", off, len(whole), depth))
				expired = true
				break
			}
			end := off + 20000
			if end > len(whole) {
				end = len(whole)
			}
			level := whole[off:end]
			jobs := make([]harness.Job, len(level))
			for i, n := range level {
				jobs[i] = c05Job(i, corpus[n.si], n.dec)
			}
			c.Pool.Map(jobs, func(j *harness.Job, t *harness.Trace) {
				n := level[j.ID]
				s := corpus[n.si]
				c.Evaluations++
				c.Traces++
				c.States++
				if t.Err != "" {
					c.HarnessError(t.Err)
					return
				}
				call := LastCall(t)
				c.Transitions += int64(len(call.Events))
				out := c05Out(t)
				if depth == 0 {
					defaults[n.si] = out
					defEvents[n.si] = call.Events
					if out.outcome != "returned" {
						c.Outcome("default-plan-does-not-return/" + out.outcome)
						return
					}
					c.Outcome("default/" + out.outcome)
				} else {
					c.NontrivialN++
					def := defaults[n.si]
					if def.outcome != "returned" {
						return
					}
					if s.mode == "vi" && c05SplitsAfterEsc(s, call.Events) {
						c.Outcome("excluded/vi-split-after-ESC")
						return
					}
					if out != def {
						fp := c05Class(s, n.dec, call.Events, def, out)
						c.Outcome(fp)
						if cd, ok := c.cands[fp]; ok {
							cd.count++
						} else {
							jd, jv := c05Job(0, s, map[int]harness.Decision{}), c05Job(1, s, n.dec)
							c.Violate(Witness{Fingerprint: fp, Engine: "session", Jobs: []harness.Job{jd, jv},
								What: fmt.Sprintf("script %s: default plan gives (%q, err=%q, %s); the plan with decisions %v gives (%q, err=%q, %s %s); events: %s", s.name, def.line, def.err, def.outcome, n.dec, out.line, out.err, out.outcome, out.site, showEvents(call.Events))}, func() string {
								a, b := c05Out(c.Pool.RunOne(&jd)), c05Out(c.Pool.RunOne(&jv))
								if a != b {
									return c05Class(s, n.dec, LastCall(c.Pool.RunOne(&jv)).Events, a, b)
								}
								return ""
							})
						}
						return // do not deviate further from a failing plan
					}
					c.Outcome("same-as-default")
				}
				if c.Evaluations%4001 == 3 {
					c.Sample(map[string]any{"script": s.name, "decisions": n.dec, "events": showEvents(call.Events), "result": out.line})
				}
				if n.devs >= D {
					return
				}
				if quick && n.devs >= 1 && n.si%5 != 0 && n.si < len(corpus)-17 {
					return // quick: second deviation for every 5th generated script and all hand-written ones
				}
				for i, ev := range call.Events {
					if i <= n.last {
						continue
					}
					for _, alt := range c05Alternatives(s, ev) {
						if len(next) >= 2500000 {
							c.Cap(fmt.Sprintf("frontier cap: more than 2.5 M plans with %d deviations; the rest is not explored", n.devs+1))
							break
						}
						nd := map[int]harness.Decision{}
						for k, v := range n.dec {
							nd[k] = v
						}
						nd[i] = alt
						next = append(next, node{si: n.si, dec: nd, devs: n.devs + 1, last: i})
					}
				}
				if depth == 0 {
					// extremes: everything in the first key read; one byte per read
					b, _ := s.bytes()
					first := -1
					for i, ev := range call.Events {
						if ev.Kind == "key" {
							first = i
							break
						}
					}
					if first >= 0 {
						next = append(next, node{si: n.si, dec: map[int]harness.Decision{first: {N: len(b)}}, devs: D, last: 1 << 30})
					}
					one := map[int]harness.Decision{}
					for i := 0; i < 4*len(b)+16; i++ {
						one[i] = harness.Decision{N: 1} // applies to key reads; N at cpr reads needs a Mode to deliver
					}
					next = append(next, node{si: n.si, dec: one, devs: D, last: 1 << 30})
				}
			})
		}
		if expired {
			break
		}
		level = next
	}
}

func showEvents(evs []harness.Event) string {
	var ps []string
	for _, e := range evs {
		if e.Kind == "key" {
			ps = append(ps, fmt.Sprintf("key:%d", e.N))
		} else if e.N > 0 {
			ps = append(ps, fmt.Sprintf("cpr+%d(%s)", e.N, e.Mode))
		} else {
			ps = append(ps, "cpr")
		}
	}
	return strings.Join(ps, " ")
}
