// Package checks holds one file per property: alphabets, bounds, oracles and reference
// models. This file is the shared plumbing: evidence, known findings, violation
// reporting with confirmation re-runs, and replay files.
package checks

import (
	"crypto/sha256"
	"encoding/hex"
	"encoding/json"
	"fmt"
	"os"
	"path/filepath"
	"sort"
	"strconv"
	"strings"
	"time"

	"verif/internal/harness"
)

// Root is the /verif directory (set by main).
var Root = "/verif"

// Check is one registered property check.
type Check struct {
	ID    string
	Level string // evidence level
	Run   func(c *Ctx)
	// Replay re-executes one witness and returns a human-readable report and the
	// fingerprint observed ("" when the witness no longer fails).
	Replay func(c *Ctx, w *Witness) (report string, fp string)
}

var registry = map[string]*Check{}

// Register adds a check.
func Register(ch *Check) { registry[ch.ID] = ch }

// Get returns a check by id.
func Get(id string) *Check { return registry[id] }

// IDs lists registered checks.
func IDs() []string {
	var ids []string
	for id := range registry {
		ids = append(ids, id)
	}
	sort.Strings(ids)
	return ids
}

// Witness is what a replay file holds.
type Witness struct {
	Property    string
	Fingerprint string
	What        string
	Engine      string          // "session" | "pure" | "sched"
	Job         *harness.Job    `json:",omitempty"`
	Jobs        []harness.Job   `json:",omitempty"` // differential witnesses
	Input       json.RawMessage `json:",omitempty"` // engine-specific input
	Expected    string          `json:",omitempty"`
	Observed    string          `json:",omitempty"`
	Env         []string        `json:",omitempty"`
}

type candidate struct {
	w       Witness
	confirm func() string // re-runs the witness and returns the fingerprint seen
	count   int
}

// Finding is one entry of known_findings.json.
type Finding struct {
	Status      string // "known" | "fixed"
	Property    string
	Fingerprint string
	Commit      string `json:",omitempty"`
	What        string
	Witness     string `json:",omitempty"`
	Line        string // the record in the textual form the brief asks for
}

// Ctx carries one run of one check.
type Ctx struct {
	ID       string
	Tier     string
	Seed     int
	Pool     *harness.Pool
	Start    time.Time
	Deadline time.Time // internal deadline: stop enumerating, exit 0, exhaustive:false
	Level    string

	// coverage counters (filled by the check)
	Evaluations   int64
	States        int64
	Transitions   int64
	Traces        int64
	Nontrivial    map[string]struct{}
	NontrivialN   int64 // used instead of the set when the check counts itself
	Outcomes      map[string]int64
	Rule          string
	Samples       []any
	Exhaustive    bool
	Caps          []string
	Assumptions   []string
	Extra         map[string]any
	Bounds        map[string]any
	HarnessErrors []string

	cands       map[string]*candidate
	order       []string
	known       []Finding
	Thorough    bool
	Slow        []slowJob
	TotalMicros int64
	Scratch     string
}

// Quick reports whether this is the quick tier.
func (c *Ctx) Quick() bool { return c.Tier != "thorough" }

// Expired reports whether the internal deadline has passed.
func (c *Ctx) Expired() bool {
	if maxMinutes > 0 && time.Since(c.Start) > time.Duration(maxMinutes)*time.Minute {
		return true
	}
	return !c.Deadline.IsZero() && time.Now().After(c.Deadline)
}

// maxMinutes (env VERIF_MAX_MINUTES) shortens every internal deadline: a run that hits it stops
// enumerating, reports the cap in its evidence (exhaustive:false) and exits 0 like any other capped run.
var maxMinutes = func() int {
	n, _ := strconv.Atoi(os.Getenv("VERIF_MAX_MINUTES"))
	return n
}()

// Cap records that a cap was hit (the run is then not exhaustive).
func (c *Ctx) Cap(s string) {
	for _, x := range c.Caps {
		if x == s {
			return
		}
	}
	c.Caps = append(c.Caps, s)
	c.Exhaustive = false
}

// Outcome counts a distinct observed outcome class (guard against vacuity).
func (c *Ctx) Outcome(k string) {
	if c.Outcomes == nil {
		c.Outcomes = map[string]int64{}
	}
	if len(c.Outcomes) < 5000 || c.Outcomes[k] > 0 {
		c.Outcomes[k]++
	}
}

// NonTrivial records a distinct non-trivial case by key.
func (c *Ctx) NonTrivial(k string) {
	if c.Nontrivial == nil {
		c.Nontrivial = map[string]struct{}{}
	}
	c.Nontrivial[k] = struct{}{}
}

// Sample keeps up to n sample cases.
func (c *Ctx) Sample(v any) {
	if len(c.Samples) < 8 {
		c.Samples = append(c.Samples, v)
	}
}

// HarnessError records an infrastructure problem (never a violation).
func (c *Ctx) HarnessError(s string) {
	if len(c.HarnessErrors) < 20 {
		c.HarnessErrors = append(c.HarnessErrors, s)
	}
	c.Exhaustive = false
}

// Violate records a candidate violation. Only the first witness per fingerprint is
// kept (enumerations go simplest-first). confirm re-runs it; nil means deterministic
// by construction (pure function of the input).
func (c *Ctx) Violate(w Witness, confirm func() string) {
	if c.cands == nil {
		c.cands = map[string]*candidate{}
	}
	if cd, ok := c.cands[w.Fingerprint]; ok {
		cd.count++
		return
	}
	w.Property = c.ID
	c.cands[w.Fingerprint] = &candidate{w: w, confirm: confirm, count: 1}
	c.order = append(c.order, w.Fingerprint)
}

// ViolateJob records a session-engine violation; refp recomputes the fingerprint from a
// fresh trace of the same job.
func (c *Ctx) ViolateJob(fp, what string, job *harness.Job, refp func(t *harness.Trace) string) {
	if cd, ok := c.cands[fp]; ok {
		cd.count++
		return
	}
	j := *job
	w := Witness{Fingerprint: fp, What: what, Engine: "session", Job: &j}
	c.Violate(w, func() string {
		t := c.Pool.RunOne(&j)
		return refp(t)
	})
}

// NViolations is the number of distinct candidate fingerprints so far.
func (c *Ctx) NViolations() int { return len(c.cands) }

func loadFindings() []Finding {
	var f struct{ Findings []Finding }
	b, err := os.ReadFile(filepath.Join(Root, "known_findings.json"))
	if err != nil {
		return nil
	}
	if err := json.Unmarshal(b, &f); err != nil {
		fmt.Fprintf(os.Stderr, "known_findings.json: %v\n", err)
		os.Exit(2)
	}
	return f.Findings
}

// Finish confirms candidates, prints KNOWN-FINDING / VIOLATION lines, writes replay
// files and evidence, and returns the exit code.
func (c *Ctx) Finish() int {
	c.known = loadFindings()
	exit := 0
	nviol := 0
	var knownHit []string
	var inconclusive []string
	for _, fp := range c.order {
		cd := c.cands[fp]
		// confirmation: the same fingerprint on each of 4 further runs
		ok := true
		if cd.confirm != nil {
			for i := 0; i < 4; i++ {
				if got := cd.confirm(); got != fp {
					ok = false
					inconclusive = append(inconclusive, fmt.Sprintf("%s (re-run %d gave %q)", fp, i+1, got))
					break
				}
			}
		}
		if !ok {
			c.Exhaustive = false
			fmt.Printf("INCONCLUSIVE property=%s fingerprint=%s (not reproducible; harness issue, not reported)\n", c.ID, fp)
			continue
		}
		listed := false
		for _, k := range c.known {
			if k.Status == "known" && k.Property == c.ID && k.Fingerprint == fp {
				listed = true
				fmt.Printf("KNOWN-FINDING: property=%s %s [fingerprint=%s, %d occurrence(s) this run]\n", c.ID, k.What, fp, cd.count)
				knownHit = append(knownHit, fp)
			}
		}
		if listed {
			continue
		}
		nviol++
		path := c.writeReplay(&cd.w)
		fmt.Printf("VIOLATION property=%s replay=%s\n", c.ID, path)
		fmt.Printf("  fingerprint=%s occurrences=%d\n  %s\n", fp, cd.count, cd.w.What)
		exit = 1
	}
	c.writeEvidence(nviol, knownHit, inconclusive)
	return exit
}

func sanitize(s string) string {
	var b strings.Builder
	for _, r := range s {
		switch {
		case r >= 'a' && r <= 'z', r >= 'A' && r <= 'Z', r >= '0' && r <= '9', r == '-', r == '_', r == '.':
			b.WriteRune(r)
		default:
			b.WriteByte('_')
		}
		if b.Len() > 80 {
			break
		}
	}
	return b.String()
}

func (c *Ctx) writeReplay(w *Witness) string {
	dir := filepath.Join(Root, "replays", c.ID)
	os.MkdirAll(dir, 0o755)
	name := sanitize(w.Fingerprint)
	if len(w.Fingerprint) > 60 {
		// long fingerprints: a readable head and a digest, so that two of them never share a file
		sum := sha256.Sum256([]byte(w.Fingerprint))
		name = sanitize(w.Fingerprint[:60]) + "-" + hex.EncodeToString(sum[:5])
	}
	path := filepath.Join(dir, name+".json")
	w.Env = []string{"HOME=/nonexistent", "TERM=xterm", "LANG=C.UTF-8", "VISUAL=", "EDITOR=", "INPUTRC=<file holding Job.Cfg.RC>"}
	b, _ := json.MarshalIndent(w, "", " ")
	os.WriteFile(path, b, 0o644)
	return path
}

func (c *Ctx) writeEvidence(nviol int, knownHit, inconclusive []string) {
	cov := map[string]any{}
	nt := c.NontrivialN
	if c.Nontrivial != nil {
		nt = int64(len(c.Nontrivial))
	}
	cov["evaluations"] = c.Evaluations
	cov["distinct_nontrivial"] = nt
	cov["rule"] = c.Rule
	samples := c.Samples
	if len(samples) == 0 {
		samples = []any{"(no case explored)"}
	}
	cov["samples"] = samples
	cov["exhaustive"] = c.Exhaustive && len(c.Caps) == 0 && len(c.HarnessErrors) == 0
	if c.Level == "model_checking" {
		cov["states"] = c.States
		cov["transitions"] = c.Transitions
		cov["traces_validated_against_impl"] = c.Traces
	}
	if len(c.Caps) > 0 {
		cov["caps_hit"] = c.Caps
	}
	if c.Outcomes != nil {
		cov["distinct_outcomes"] = len(c.Outcomes)
		// keep the 12 most frequent
		type kv struct {
			K string
			V int64
		}
		var kvs []kv
		for k, v := range c.Outcomes {
			kvs = append(kvs, kv{k, v})
		}
		sort.Slice(kvs, func(i, j int) bool {
			if kvs[i].V != kvs[j].V {
				return kvs[i].V > kvs[j].V
			}
			return kvs[i].K < kvs[j].K
		})
		top := map[string]int64{}
		for i, e := range kvs {
			if i >= 12 {
				break
			}
			top[e.K] = e.V
		}
		cov["top_outcomes"] = top
	}
	if c.Bounds != nil {
		cov["bounds"] = c.Bounds
	}
	if len(knownHit) > 0 {
		cov["known_findings_matched"] = knownHit
	}
	if len(inconclusive) > 0 {
		cov["inconclusive"] = inconclusive
	}
	if len(c.HarnessErrors) > 0 {
		cov["harness_errors"] = c.HarnessErrors
	}
	if c.Pool != nil {
		cov["worker_executions"] = c.Pool.Jobs
		cov["worker_restarts"] = c.Pool.Restarts
	}
	if len(c.Slow) > 0 {
		cov["slowest_executions"] = c.Slow
		cov["worker_cpu_seconds"] = float64(c.TotalMicros) / 1e6
	}
	for k, v := range c.Extra {
		cov[k] = v
	}
	ev := map[string]any{
		"property_id": c.ID,
		"tier":        c.Tier,
		"seed":        c.Seed,
		"level":       c.Level,
		"coverage":    cov,
		"assumptions": c.Assumptions,
		"wall_s":      time.Since(c.Start).Seconds(),
		"violations":  nviol,
	}
	if c.Assumptions == nil {
		ev["assumptions"] = []string{}
	}
	os.MkdirAll(filepath.Join(Root, "evidence"), 0o755)
	b, _ := json.MarshalIndent(ev, "", " ")
	os.WriteFile(filepath.Join(Root, "evidence", c.ID+".json"), append(b, '\n'), 0o644)
}

// --- small helpers shared by session checks ---

// Key builds a single-chunk answer.
func Key(s string) harness.Answer { return harness.Answer{Bytes: []byte(s)} }

// Keys builds one answer per string.
func Keys(ss ...string) []harness.Answer {
	out := make([]harness.Answer, len(ss))
	for i, s := range ss {
		out[i] = Key(s)
	}
	return out
}

// ShowKeys renders a chunk list readably.
func ShowKeys(a []harness.Answer) string {
	var parts []string
	for _, x := range a {
		switch {
		case x.End:
			parts = append(parts, "<END>")
		case x.Fault != "":
			parts = append(parts, "<"+x.Fault+">")
		default:
			parts = append(parts, fmt.Sprintf("%q", string(x.Bytes)))
		}
	}
	return strings.Join(parts, " ")
}

// LastCall returns the last call of a trace (or a synthetic one on harness error).
func LastCall(t *harness.Trace) *harness.Call {
	if len(t.Calls) == 0 {
		return &harness.Call{Outcome: "none"}
	}
	return &t.Calls[len(t.Calls)-1]
}

func jsonUnmarshal(b []byte, v any) { _ = json.Unmarshal(b, v) }
func jsonRaw(v any) json.RawMessage { b, _ := json.Marshal(v); return b }
func jsonString(v any) string       { b, _ := json.MarshalIndent(v, "", " "); return string(b) }
