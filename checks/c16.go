package checks

import (
	"fmt"
	"strings"
	"time"

	"verif/internal/harness"
)

// C16 — yank gives back exactly what kill took.
//
// All buffers of length <= L over {a b space . " \n é} x every cursor position x every
// kill command (by name) x numeric argument {none, 2}, and every ordered pair of kill
// commands; kill-region with the mark at every other position; vi: x (with count) + P.
// The state (buffer, cursor) is planted by a harness-registered command that only uses
// Line().Set / Cursor().Set; a differential self-check types the same states on all
// short cases and requires identical results.
//
// Oracle: B0 -kill-> B1 -yank-> B2 : B2 == B0; B0 == B1 with GetKill() inserted at some
// position; after two kills yank inserts the second one's text.

var c16Alphabet = []string{"a", "b", " ", ".", "\"", "\n", "é"}

var c16Kills = []string{"kill-line", "backward-kill-line", "unix-line-discard", "kill-word", "backward-kill-word",
	"unix-word-rubout", "kill-whole-line", "kill-buffer", "shell-kill-word", "shell-backward-kill-word"}

const (
	c16SeedA = "\x18\x1dzy"
	c16SeedB = "\x18\x1dzz"
)

func c16RC(mode string) (string, map[string]string) {
	rc, acts := allBoundRC(map[string]string{"emacs": "emacs", "vi": "vi-command"}[mode])
	if mode == "vi" {
		rc = "set editing-mode vi\n" + rc
	}
	rc += "\"\\C-x\\C-]zy\": verif-seed-a\n\"\\C-x\\C-]zz\": verif-seed-b\n"
	keys := map[string]string{}
	for _, a := range acts {
		keys[strings.TrimPrefix(a.Name, "cmd:")] = string(a.Ans[0].Bytes)
	}
	return rc, keys
}

type c16Case struct {
	buf   string
	pos   int
	mark  int // -1 none
	kills []string
	arg   bool
	mode  string
	viCnt int
	reuse string // "" | "insert-at-start" | "delete-at-start": kill, yank, that edit, end-of-line, yank again
}

func (cs c16Case) String() string {
	s := fmt.Sprintf("buffer=%q cursor=%d mark=%d kills=%v arg2=%v mode=%s count=%d", cs.buf, cs.pos, cs.mark, cs.kills, cs.arg, cs.mode, cs.viCnt)
	if cs.reuse != "" {
		s += " then yank, " + cs.reuse + ", end-of-line, yank again"
	}
	return s
}

func c16Job(id int, cs c16Case, rc string, keys map[string]string) harness.Job {
	cfg := harness.Config{RC: rc, W: 80, H: 24, Prompt: "> ", NoHist: true}
	var ans []harness.Answer
	if cs.mode == "vi" {
		ans = append(ans, Key("\x1b"))
	}
	if cs.mark >= 0 {
		cfg.Probes = append(cfg.Probes, harness.Probe{Name: "verif-seed-a", Kind: "seed", Arg: cs.buf, Pos: cs.mark})
		// (with a numeric argument set-mark puts the mark at point in this library, without one at
		// the position 1; a mark alone is not an active region: exchange-point-and-mark makes it one)
		ans = append(ans, Key(c16SeedA), Key("\x1b1"), Key(keys["set-mark"]))
	}
	cfg.Probes = append(cfg.Probes, harness.Probe{Name: "verif-seed-b", Kind: "seed", Arg: cs.buf, Pos: cs.pos})
	ans = append(ans, Key(c16SeedB))
	if cs.mark >= 0 {
		ans = append(ans, Key(keys["exchange-point-and-mark"])) // point = cs.mark, mark = cs.pos, region active
	}
	from := len(ans)
	if strings.HasPrefix(cs.reuse, "series") {
		if cs.mode == "vi" {
			for i := 0; i < cs.viCnt; i++ {
				ans = append(ans, Key("x"))
			}
			ans = append(ans, Key("P"))
		} else {
			for _, txt := range strings.Split(strings.TrimPrefix(cs.reuse, "series:"), "\x00") {
				ans = append(ans, Key(txt), Key(keys[cs.kills[0]]))
			}
			ans = append(ans, Key(keys["yank"]))
		}
		return harness.Job{ID: id, Cfg: cfg, Calls: [][]harness.Answer{ans}, Want: harness.Want{Obs: 2, From: from}}
	}
	if cs.mode == "vi" {
		if cs.viCnt > 1 {
			ans = append(ans, Key(fmt.Sprint(cs.viCnt)))
		}
		ans = append(ans, Key("x"), Key("P"))
	} else {
		for _, k := range cs.kills {
			if cs.arg {
				ans = append(ans, Key("\x1b2"))
			}
			ans = append(ans, Key(keys[k]))
		}
		ans = append(ans, Key(keys["yank"]))
		switch cs.reuse {
		case "insert-at-start":
			ans = append(ans, Key("\x01"), Key("X"), Key("\x05"), Key(keys["yank"]))
		case "delete-at-start":
			ans = append(ans, Key("\x01"), Key("\x04"), Key("\x05"), Key(keys["yank"]))
		}
	}
	return harness.Job{ID: id, Cfg: cfg, Calls: [][]harness.Answer{ans}, Want: harness.Want{Obs: 2, From: from}}
}

func insertedAt(small, ins, big string) bool {
	rs, ri, rb := []rune(small), []rune(ins), []rune(big)
	if len(rs)+len(ri) != len(rb) {
		return false
	}
	for i := 0; i <= len(rs); i++ {
		if string(rb[:i]) == string(rs[:i]) && string(rb[i:i+len(ri)]) == string(ri) && string(rb[i+len(ri):]) == string(rs[i:]) {
			return true
		}
	}
	return false
}

// c16Verdict: waits recorded from the wait that consumes the first kill chunk.
func c16Verdict(cs c16Case, t *harness.Trace) (fp, what string, nontrivial bool) {
	call := LastCall(t)
	if call.Outcome != "aborted" {
		return "", "not judged (C01): " + call.Outcome + "@" + call.Site, false
	}
	// collect main-loop observations: state before each chunk; the last is after yank
	var obs []*harness.Obs
	for _, w := range call.Waits {
		if w.Obs != nil && w.Obs.Kind == "main" {
			obs = append(obs, w.Obs)
		}
	}
	if strings.HasPrefix(cs.reuse, "series") {
		// a series of kills (each of a text typed just before it; vi: x pressed several times), then one
		// yank / put-before: every kill buffer is the text that kill removed, and the yank inserts the last
		var removed string
		var beforeYank *harness.Obs
		nk := 0
		for i := 0; i+1 < len(obs)-1; i++ {
			a, b := obs[i], obs[i+1]
			if len([]rune(b.Line)) >= len([]rune(a.Line)) {
				continue // typing
			}
			nk++
			if !insertedAt(b.Line, b.Kill, a.Line) {
				return "kill-buffer-is-not-the-removed-text/series", fmt.Sprintf("%s: kill #%d of the series changed %q into %q but the kill buffer holds %q", cs, nk, a.Line, b.Line, b.Kill), true
			}
			removed = b.Kill
		}
		if nk < 2 || len(obs) < 2 {
			return "", "", false
		}
		beforeYank, final := obs[len(obs)-2], obs[len(obs)-1]
		if strings.Contains(removed, "\n") && cs.mode == "vi" {
			return "", "", true
		}
		if !insertedAt(beforeYank.Line, removed, final.Line) {
			return "yank-does-not-insert-last-kill/series", fmt.Sprintf("%s: the last kill of the series removed %q; yank changed %q into %q", cs, removed, beforeYank.Line, final.Line), true
		}
		return "", "", true
	}
	if cs.reuse != "" {
		// obs: before kill, after kill, after yank, after C-a, after the edit, after C-e, after the second yank
		if len(obs) != 7 {
			return "", fmt.Sprintf("not judged: %d observations, expected 7", len(obs)), false
		}
		if obs[0].Line != cs.buf || obs[1].Line == obs[0].Line {
			return "", "", false
		}
		K := obs[1].Kill
		for i := 2; i < 7; i++ {
			if obs[i].Kill != K {
				return "kill-buffer-changed-by-a-later-edit", fmt.Sprintf("%s: the kill removed %q; after step %d of (yank, C-a, edit, C-e, yank) the kill buffer reads %q (buffer %q)", cs, K, i-1, obs[i].Kill, obs[i].Line), true
			}
		}
		if !insertedAt(obs[5].Line, K, obs[6].Line) {
			return "second-yank-does-not-insert-the-kill", fmt.Sprintf("%s: the kill removed %q; the second yank changed %q into %q", cs, K, obs[5].Line, obs[6].Line), true
		}
		return "", "", true
	}
	steps := len(cs.kills)
	if cs.mode == "vi" {
		steps = 1
	}
	per := 1
	if cs.arg || (cs.mode == "vi" && cs.viCnt > 1) {
		per = 2
	}
	need := steps*per + 2
	if len(obs) != need {
		return "", fmt.Sprintf("not judged: %d observations, expected %d", len(obs), need), false
	}
	b0 := obs[0]
	wantPos := cs.pos
	if cs.mark >= 0 {
		wantPos = cs.mark
	}
	if cs.mark >= 0 && !b0.SelOn {
		return "", "not judged: region not active", false
	}
	if b0.Line != cs.buf || b0.Pos != min(wantPos, len([]rune(cs.buf))) && cs.mode != "vi" {
		return "", "not judged: seed state not established", false
	}
	cls := strings.Join(cs.kills, "+")
	if cs.mode == "vi" {
		cls = "vi-delete+put-before"
	}
	if cs.mark >= 0 {
		cls += "(region)"
	}
	prev := b0
	var lastKill string
	var beforeLast *harness.Obs
	for i := 0; i < steps; i++ {
		after := obs[(i+1)*per]
		if after.Line != prev.Line {
			nontrivial = true
			// the removed text is the kill buffer
			if !insertedAt(after.Line, after.Kill, prev.Line) {
				return "kill-buffer-is-not-the-removed-text/" + cls, fmt.Sprintf("%s: kill #%d changed %q into %q but the kill buffer holds %q", cs, i+1, prev.Line, after.Line, after.Kill), true
			}
			lastKill = after.Kill
			beforeLast = prev
		}
		prev = after
	}
	final := obs[len(obs)-1]
	if !nontrivial {
		return "", "", false
	}
	if !(cs.mode == "vi" && strings.Contains(lastKill, "\n")) && !insertedAt(prev.Line, lastKill, final.Line) {
		return "yank-does-not-insert-last-kill/" + cls, fmt.Sprintf("%s: after the kills the buffer was %q (kill buffer %q); yank gave %q", cs, prev.Line, lastKill, final.Line), true
	}
	if cs.mode == "vi" && (strings.Contains(lastKill, "\n") || prev.Pos != b0.Pos) {
		// a register ending in a newline is documented to be put line-wise, and when
		// x removed the last character of a line the cursor is no longer "at the
		// same point": the restore clause does not apply
		return "", "", true
	}
	if steps == 1 && final.Line != b0.Line {
		return "kill-then-yank-does-not-restore/" + cls, fmt.Sprintf("%s: kill gave %q (cursor %d), yank gave %q instead of the original", cs, prev.Line, prev.Pos, final.Line), true
	}
	if steps == 2 && beforeLast != nil && obs[2*per].Line != obs[per].Line && final.Line != obs[per].Line {
		return "second-kill-then-yank-does-not-restore/" + cls, fmt.Sprintf("%s: after kill #1 %q, after kill #2 %q, yank gave %q instead of the state before kill #2", cs, obs[per].Line, obs[2*per].Line, final.Line), true
	}
	return "", "", true
}

func init() {
	Register(&Check{ID: "C16", Level: "exploration", Run: runC16, Replay: func(c *Ctx, w *Witness) (string, string) {
		var in struct {
			Buf   string
			Pos   int
			Mark  int
			Kills []string
			Arg   bool
			Mode  string
			Cnt   int
			Reuse string
		}
		jsonUnmarshal(w.Input, &in)
		cs := c16Case{in.Buf, in.Pos, in.Mark, in.Kills, in.Arg, in.Mode, in.Cnt, in.Reuse}
		t := c.Pool.RunOne(w.Job)
		fp, what, _ := c16Verdict(cs, t)
		return what + "\n" + jsonString(LastCall(t).Waits), fp
	}})
}

func runC16(c *Ctx) {
	L := 3
	if !c.Quick() {
		L = 4
		c.Deadline = c.Start.Add(40 * time.Minute)
	}
	bufs := c02Strings(c16Alphabet, L)
	c.Rule = fmt.Sprintf("all buffers of length <= %d over %q x every cursor position x %d kill commands (by name) x numeric argument {none, 2}; kill-region with the mark at every other position; every ordered pair of kill commands on buffers of length <= %d; vi x with count {1,2,3} then P; every single kill followed by yank, an edit at the start of the line (insert / delete-char), end-of-line and a second yank (the kill buffer must not change, the second yank inserts it again). series of 3-4 kills of typed texts (texts recurring in the series) then yank, vi x pressed 3-4 times then P. State planted by a registered command (Line().Set/Cursor().Set), cross-checked against typing on short cases. non-trivial = distinct cases in which a kill removed something", L, c16Alphabet, len(c16Kills), L-1)
	c.Bounds = map[string]any{"max_len": L, "alphabet": c16Alphabet, "kill_commands": c16Kills, "pairs_up_to_len": L - 1}
	c.Assumptions = []string{"delete-word is not a kill (documented)", "in vi mode only delete-character + put-before must restore (statement); registers containing a newline are put line-wise as documented and are not judged; when x removes the last character of a line the cursor is clamped and the restore clause does not apply"}

	rcE, keysE := c16RC("emacs")
	rcV, keysV := c16RC("vi")
	var cases []c16Case
	for _, b := range bufs {
		n := len([]rune(b))
		for pos := 0; pos <= n; pos++ {
			for _, k := range c16Kills {
				for _, arg := range []bool{false, true} {
					cases = append(cases, c16Case{buf: b, pos: pos, mark: -1, kills: []string{k}, arg: arg, mode: "emacs"})
				}
			}
			for _, k := range c16Kills {
				for _, reuse := range []string{"insert-at-start", "delete-at-start"} {
					cases = append(cases, c16Case{buf: b, pos: pos, mark: -1, kills: []string{k}, mode: "emacs", reuse: reuse})
				}
			}
			for mark := 0; mark <= n; mark++ {
				if mark != pos {
					cases = append(cases, c16Case{buf: b, pos: pos, mark: mark, kills: []string{"kill-region"}, mode: "emacs"})
				}
			}
			if n <= L-1 {
				for _, k1 := range c16Kills {
					for _, k2 := range c16Kills {
						cases = append(cases, c16Case{buf: b, pos: pos, mark: -1, kills: []string{k1, k2}, mode: "emacs"})
					}
				}
			}
			if pos < n || n == 0 {
				for cnt := 1; cnt <= 3; cnt++ {
					cases = append(cases, c16Case{buf: b, pos: pos, mark: -1, mode: "vi", viCnt: cnt})
				}
			}
		}
	}
	// series of three and four kills of typed texts (the same text may come back later in the
	// series), then yank; vi: x three / four times on a buffer over {a, b}, then P
	{
		texts := []string{"a", "b", "a b"}
		var rec func(p []string)
		rec = func(p []string) {
			if len(p) >= 3 {
				for _, k := range []string{"unix-line-discard", "backward-kill-line", "kill-whole-line"} {
					cases = append(cases, c16Case{mark: -1, kills: []string{k}, mode: "emacs", reuse: "series:" + strings.Join(p, "\x00")})
				}
			}
			if len(p) == 4 {
				return
			}
			for _, t := range texts {
				rec(append(append([]string{}, p...), t))
			}
		}
		rec(nil)
		for _, b := range c02Strings([]string{"a", "b"}, 5) {
			if n := len(b); n >= 4 {
				cases = append(cases, c16Case{buf: b, mark: -1, mode: "vi", viCnt: 3, reuse: "series"}, c16Case{buf: b, mark: -1, mode: "vi", viCnt: 4, reuse: "series"})
			}
		}
	}
	next := 0
	gen := func() (harness.Job, bool) {
		if next >= len(cases) || (next%4096 == 0 && c.Expired()) {
			return harness.Job{}, false
		}
		cs := cases[next]
		rc, keys := rcE, keysE
		if cs.mode == "vi" {
			rc, keys = rcV, keysV
		}
		j := c16Job(next, cs, rc, keys)
		next++
		return j, true
	}
	c.Pool.Stream(gen, func(j *harness.Job, t *harness.Trace) {
		cs := cases[j.ID]
		c.Evaluations++
		if t.Err != "" {
			c.HarnessError(t.Err)
			return
		}
		fp, what, non := c16Verdict(cs, t)
		if non {
			c.NontrivialN++
		}
		if c.Evaluations%5000 == 11 {
			c.Sample(map[string]any{"case": cs.String(), "observations": LastCall(t).Waits})
		}
		if fp == "" {
			switch {
			case strings.HasPrefix(what, "not judged"):
				c.Outcome(what)
				if c.Outcomes[what] == 1 {
					c.Sample(map[string]any{"not_judged": what, "case": cs.String(), "keys": ShowKeys(j.Calls[0])})
				}
			case non && cs.mark >= 0:
				c.Outcome("ok/killed-and-restored(region)")
			case non && strings.HasPrefix(cs.reuse, "series"):
				c.Outcome("ok/killed-and-restored(series)")
			case non:
				c.Outcome("ok/killed-and-restored")
			case cs.mark >= 0:
				c.Outcome("ok/nothing-to-kill(region)")
			default:
				c.Outcome("ok/nothing-to-kill")
			}
			return
		}
		c.Outcome(fp)
		if cd, ok := c.cands[fp]; ok {
			cd.count++
			return
		}
		jj := *j
		c.Violate(Witness{Fingerprint: fp, What: what, Engine: "session", Job: &jj,
			Input: jsonRaw(map[string]any{"Buf": cs.buf, "Pos": cs.pos, "Mark": cs.mark, "Kills": cs.kills, "Arg": cs.arg, "Mode": cs.mode, "Cnt": cs.viCnt, "Reuse": cs.reuse})}, func() string {
			f, _, _ := c16Verdict(cs, c.Pool.RunOne(&jj))
			return f
		})
	})
	if next < len(cases) {
		c.Cap(fmt.Sprintf("internal deadline: %d of %d cases run", next, len(cases)))
	}
}
