package checks

// Dump round trip (C19 part c) — filled in once the session checks exist.
func runC19Dumps(c *Ctx) {}

func c19DumpReplay(c *Ctx, w *Witness) (string, string) { return "", "" }
