package checks

import (
	"fmt"
	"os"
	"regexp"
	"sort"
	"strings"

	"github.com/reeflective/readline"
	"github.com/reeflective/readline/inputrc"

	"verif/internal/harness"
	"verif/internal/vt"
)

// Dump round trip (C19 part c).
//
// For every generated configuration (an inputrc text that plants one key sequence bound to
// a command, one key sequence bound to a macro body, or one variable value, in emacs or vi
// insert keymap) the REAL dump commands are run in inputrc format (numeric argument set)
// inside the real Readline loop; their terminal output is cut out of the raw output stream,
// parsed back with the real parser into a fresh configuration, and compared with the
// configuration of a Shell built in the driver process from the same inputrc text:
//   dump-functions : the command binds of the current keymap are reproduced exactly
//   dump-macros    : the macro binds of the current keymap are reproduced exactly
//   dump-variables : every variable is reproduced with the same value

var c19Seqs = []string{
	`\C-xa`, `\e[A`, `\M-q`, `\C-x\"`, `\C-x\\`, `\C-x\C-?`, `\C-x\C-@`, `\C-x `, `\C-x#`, `\C-x:`, `\C-x'`,
	`\C-x\e`, `\C-x\C-x\C-x`, `\C-xé`, `\C-x中`, `\C-x\C-j`, `\C-x\C-m`, `\C-x\t`, `\M-\C-x`, `\C-x\x80`, `\C-x\xff`,
	`\C-x-`, `\C-xC-`, `\C-x\\C-a`, `\C-xM-`, `\C-x\d`, `\C-x\a`, `\C-x\b`, `\C-x\f`, `\C-x\v`, `\C-x\101`, `\C-x\x41`,
}

var c19Bodies = []string{
	`abc`, `a b`, `say \"hi\"`, `back\\slash`, `\C-a\C-k`, `\e[A`, `é中`, `tab\there`, `line\nfeed`, `cr\rhere`, `it's`, `#hash`, `colon: x`,
	`\M-x`, `\x80\xff`, `\C-?`, `\C-@x`, ` lead`, `trail `, `a\"`, `\\`, `C-a`, `\\C-a`, `$x`, `yank`,
}

type c19Var struct{ name, value string }

var c19Vars = []c19Var{
	{"bell-style", "visible"}, {"comment-begin", "# "}, {"comment-begin", "//"}, {"comment-begin", `a\"b`}, {"comment-begin", `x\\y`},
	{"completion-query-items", "7"}, {"completion-prefix-display-length", "3"}, {"history-size", "-1"}, {"history-size", "0"}, {"keyseq-timeout", "1000"},
	{"isearch-terminators", `\C-g\C-]`}, {"isearch-terminators", "ab"}, {"emacs-mode-string", "@@"}, {"vi-ins-mode-string", "(ins) x"}, {"vi-cmd-mode-string", `\1\e[1m\2cmd`},
	{"active-region-start-color", `\e[01;33m`}, {"active-region-end-color", `\e[0m`}, {"completion-ignore-case", "on"}, {"show-all-if-ambiguous", "on"},
	{"convert-meta", "off"}, {"input-meta", "on"}, {"output-meta", "on"}, {"history-autosuggest", "on"}, {"usage-hint-always", "on"}, {"autocomplete", "on"},
	{"cursor-style", "block"}, {"multiline-column-custom", "| "}, {"prompt-transient", "on"}, {"search-ignore-case", "off"},
}

var c19LineRe = regexp.MustCompile(`^(".*": .+|set \S+ .*|set \S+ ?)$`)

// c19DumpText cuts the dump lines out of the raw output of a call: the dump is a run of
// complete lines, each starting right after a newline; the redisplay residue around it
// (escape sequences, prompt) never forms a line of one of the two shapes.
func c19DumpText(raw string) string {
	var out []string
	for _, l := range strings.Split(raw, "\n") {
		l = strings.TrimRight(l, "\r")
		if c19LineRe.MatchString(l) {
			out = append(out, l)
		}
	}
	return strings.Join(out, "\n") + "\n"
}

func c19DriverConfig(c *Ctx, rc string) (*inputrc.Config, map[string]func()) {
	path := c.Scratch + "/driver-rc"
	os.WriteFile(path, []byte(rc), 0o644)
	os.Setenv("INPUTRC", path)
	os.Setenv("HOME", "/nonexistent")
	sh := readline.NewShell()
	return sh.Config, sh.Keymap.Commands()
}

type c19DumpCase struct {
	Name  string
	RC    string
	Which string // functions | macros | variables
	Vi    bool
	// Wrapped: a buffer longer than the terminal width is typed first (the cursor is then on the
	// second row of the input) and what the dump printed is also read from the SCREEN: every
	// line of it must still be there once the prompt and the line have been redisplayed
	Wrapped bool
	// Rebind (sequence, action): the dump is run once, the application then changes this binding of
	// the dumped keymap through Config.Bind, the call is accepted, and the dump that is judged is
	// the one of the NEXT call of the same Shell (it must show the configuration as it is then)
	Rebind []string `json:",omitempty"`
}

func c19DumpJob(cs *c19DumpCase) harness.Job {
	rc := cs.RC + "\"\\C-x\\C-]f\": dump-functions\n\"\\C-x\\C-]v\": dump-variables\n\"\\C-x\\C-]m\": dump-macros\n"
	key := map[string]string{"functions": "f", "macros": "m", "variables": "v"}[cs.Which]
	var keys []harness.Answer
	if cs.Wrapped {
		keys = append(keys, Key(strings.Repeat("w", 205)))
	}
	if cs.Vi {
		// numeric argument in vi insert mode: through the bound digit-argument of emacs-meta is not available;
		// use the universal way: ESC to command mode, "1", then the dump key bound in vi-command as well
		keys = append(keys, Keys("\x1b", "1", "\x18\x1d"+key)...)
	} else {
		keys = append(keys, Keys("\x1b1", "\x18\x1d"+key)...)
	}
	if cs.Wrapped {
		return harness.Job{Cfg: harness.Config{RC: rc, W: 200, H: 50, Prompt: "> ", NoHist: true}, Calls: [][]harness.Answer{append(keys, harness.Answer{End: true})},
			Want: harness.Want{Raw: true, Screen: 1}}
	}
	if len(cs.Rebind) == 2 {
		km := "emacs"
		if cs.Vi {
			km = "vi-command"
		}
		cfg := harness.Config{RC: rc + "\"\\C-x\\C-]r\": verif-rebind\n", W: 200, H: 50, Prompt: "> ", NoHist: true,
			Probes: []harness.Probe{{Name: "verif-rebind", Kind: "bind", Arg: km + "\x00" + inputrc.Unescape(cs.Rebind[0]) + "\x00" + cs.Rebind[1]}}}
		first := append(append([]harness.Answer{}, keys...), Keys("\x18\x1dr", "\r")...)
		second := append(append([]harness.Answer{}, keys...), harness.Answer{End: true})
		return harness.Job{Cfg: cfg, Calls: [][]harness.Answer{first, second}, Want: harness.Want{Raw: true, SkipScreen: true}}
	}
	return harness.Job{Cfg: harness.Config{RC: rc, W: 200, H: 50, Prompt: "> ", NoHist: true}, Calls: [][]harness.Answer{append(keys, harness.Answer{End: true})},
		Want: harness.Want{Raw: true, SkipScreen: true}}
}

// c19DumpVerdict compares what the dump reproduces with the configuration itself.
func c19DumpVerdict(c *Ctx, cs *c19DumpCase, t *harness.Trace) (fp, what string) {
	call := LastCall(t)
	if call.Outcome != "aborted" && call.Outcome != "returned" {
		return "", "not judged (C01): " + call.Outcome + "@" + call.Site
	}
	text := c19DumpText(call.Raw)
	rc := cs.RC + "\"\\C-x\\C-]f\": dump-functions\n\"\\C-x\\C-]v\": dump-variables\n\"\\C-x\\C-]m\": dump-macros\n"
	if len(cs.Rebind) == 2 {
		rc += "\"\\C-x\\C-]r\": verif-rebind\n"
	}
	ref, commands := c19DriverConfig(c, rc)
	km := "emacs"
	if cs.Vi {
		km = "vi-command"
	}
	if len(cs.Rebind) == 2 {
		if len(t.Calls) < 2 {
			return "", "not judged: the first call did not return (" + t.Calls[0].Outcome + ")"
		}
		ref.Bind(km, inputrc.Unescape(cs.Rebind[0]), cs.Rebind[1], false)
		commands["verif-rebind"] = func() {}
	}
	// parse the dump back into an empty configuration
	back := inputrc.NewConfig()
	for k := range back.Binds {
		back.Binds[k] = map[string]inputrc.Bind{}
	}
	if cs.Which == "variables" {
		back = inputrc.NewDefaultConfig()
	}
	pre := "set keymap " + km + "\n"
	if err := inputrc.ParseBytes([]byte(pre+text), back, inputrc.WithName("dump"), inputrc.WithApp("")); err != nil {
		return "dump-does-not-parse/" + cs.Which, fmt.Sprintf("parsing the output of dump-%s fails: %v; output:\n%s", cs.Which, err, text)
	}
	if cs.Wrapped {
		// everything the dump printed must still be on the screen
		var scr *vt.Snap
		for i := len(call.Waits) - 1; i >= 0 && scr == nil; i-- {
			scr = call.Waits[i].Screen
		}
		if call.After != nil && call.After.Screen != nil {
			scr = call.After.Screen
		}
		if scr == nil {
			return "", "not judged: no screen"
		}
		for _, l := range strings.Split(strings.TrimSpace(text), "\n") {
			found := false
			for _, row := range scr.Lines {
				if strings.TrimRight(row, " ") == l {
					found = true
				}
			}
			if l != "" && !found {
				return "dump-output-overwritten-on-screen/" + cs.Which, fmt.Sprintf("dump-%s printed the line %s but after the prompt and the (two-row) input line were redisplayed it is no longer on the screen; screen rows: %q", cs.Which, l, scr.Lines)
			}
		}
	}
	switch cs.Which {
	case "functions", "macros":
		wantMacro := cs.Which == "macros"
		want := map[string]string{}
		for seq, b := range ref.Binds[km] {
			if _, registered := commands[b.Action]; b.Macro == wantMacro && (b.Macro || registered) {
				// binds to function names this library does not implement (bash-only names of the
				// default tables) are not printed by dump-functions and are not part of the comparison
				want[seq] = b.Action
			}
		}
		got := map[string]string{}
		for seq, b := range back.Binds[km] {
			if b.Macro != wantMacro {
				return "dump-changes-bind-kind/" + cs.Which, fmt.Sprintf("dump-%s prints %q as the other kind of bind (%+v)", cs.Which, seq, b)
			}
			got[seq] = b.Action
		}
		var diffs []string
		for seq, a := range want {
			if g, ok := got[seq]; !ok {
				diffs = append(diffs, fmt.Sprintf("missing %q -> %q", seq, a))
			} else if g != a {
				diffs = append(diffs, fmt.Sprintf("%q -> %q, configured %q", seq, g, a))
			}
		}
		for seq, g := range got {
			if _, ok := want[seq]; !ok {
				diffs = append(diffs, fmt.Sprintf("extra %q -> %q", seq, g))
			}
		}
		if len(diffs) > 0 {
			sort.Strings(diffs)
			if len(diffs) > 6 {
				diffs = append(diffs[:6], fmt.Sprintf("... %d more", len(diffs)-6))
			}
			return "dump-roundtrip-differs/" + cs.Which, fmt.Sprintf("parsing the output of dump-%s back does not reproduce the %s binds of keymap %s: %s", cs.Which, cs.Which, km, strings.Join(diffs, "; "))
		}
	case "variables":
		// one verdict per class of value that is not reproduced; the first in a fixed order is returned,
		// the others are available through c19VarDiffs
		if d := c19VarDiffs(ref, back); len(d) > 0 {
			c19LastVarDiffs = d
			return d[0].fp, d[0].what
		}
	}
	return "", ""
}

type c19Diff struct{ fp, what string }

// c19ValueClass names why a string value may not survive: the fingerprint of a finding is the
// class of the value, not the variable that happens to hold it.
func c19ValueClass(v string) string {
	switch {
	case v == "":
		return "empty"
	case strings.ContainsAny(v, " \t"):
		return "contains-blank"
	case strings.HasPrefix(v, "#"):
		return "starts-with-hash"
	case strings.IndexFunc(v, func(r rune) bool { return r < 0x20 || r == 0x7f }) >= 0:
		return "contains-control-character"
	case strings.HasPrefix(v, "\"") || strings.HasPrefix(v, "'"):
		return "starts-with-quote"
	}
	return "plain"
}

func c19VarDiffs(ref, back *inputrc.Config) []c19Diff {
	var names []string
	for name := range ref.Vars {
		names = append(names, name)
	}
	sort.Strings(names)
	seen := map[string]bool{}
	var out []c19Diff
	for _, name := range names {
		v := ref.Vars[name]
		g, ok := back.Vars[name]
		if ok && fmt.Sprint(g) == fmt.Sprint(v) && fmt.Sprintf("%T", g) == fmt.Sprintf("%T", v) {
			continue
		}
		cls := ""
		switch x := v.(type) {
		case bool:
			cls = "bool"
		case int:
			cls = "int"
		case string:
			cls = "string/" + c19ValueClass(x)
		}
		fp := "dump-roundtrip-differs/variables/" + cls
		if seen[fp] {
			continue
		}
		seen[fp] = true
		out = append(out, c19Diff{fp, fmt.Sprintf("parsing the output of dump-variables back does not reproduce variable %s: configured %q (%T), dumped and parsed back %q (%T)", name, fmt.Sprint(v), v, fmt.Sprint(g), g)})
	}
	sort.Slice(out, func(i, j int) bool { return out[i].fp < out[j].fp })
	return out
}

// c19DumpVerdicts lists every distinct finding of one case (variables can yield several).
func c19DumpVerdicts(c *Ctx, cs *c19DumpCase, t *harness.Trace) []c19Diff {
	fp, what := c19DumpVerdict(c, cs, t)
	if fp == "" && what == "" {
		return nil
	}
	if cs.Which != "variables" || !strings.HasPrefix(fp, "dump-roundtrip-differs/variables/") {
		return []c19Diff{{fp, what}}
	}
	return c19LastVarDiffs
}

var c19LastVarDiffs []c19Diff

func c19DumpCases() []c19DumpCase {
	var out []c19DumpCase
	for _, vi := range []bool{false, true} {
		mode := ""
		tag := "emacs"
		if vi {
			mode = "set editing-mode vi\nset keymap vi-command\n"
			tag = "vi"
		}
		// in vi the dump keys must exist in vi-command; the fixed binds are appended under the same keymap
		out = append(out, c19DumpCase{Name: tag + "/defaults/functions", RC: mode, Which: "functions", Vi: vi})
		out = append(out, c19DumpCase{Name: tag + "/defaults/macros", RC: mode, Which: "macros", Vi: vi})
		out = append(out, c19DumpCase{Name: tag + "/two macros, cursor on the second row of the input", RC: mode + "\"\\C-xq\": \"hello\"\n\"\\C-xr\": \"world\"\n", Which: "macros", Vi: vi, Wrapped: true})
		out = append(out, c19DumpCase{Name: tag + "/defaults/variables", RC: mode, Which: "variables", Vi: vi})
		// the configuration changes between two dumps of the same keymap (a default sequence rebound, a new one bound)
		out = append(out, c19DumpCase{Name: tag + "/second dump after C-t was rebound at run time", RC: mode, Which: "functions", Vi: vi, Rebind: []string{`\C-t`, "end-of-line"}})
		out = append(out, c19DumpCase{Name: tag + "/second dump after a new sequence was bound at run time", RC: mode, Which: "functions", Vi: vi, Rebind: []string{`\C-x\C-]q`, "forward-char"}})
		for _, s := range c19Seqs {
			out = append(out, c19DumpCase{Name: tag + "/bind " + s, RC: mode + "\"" + s + "\": forward-char\n", Which: "functions", Vi: vi})
			out = append(out, c19DumpCase{Name: tag + "/macro-on " + s, RC: mode + "\"" + s + "\": \"xyz\"\n", Which: "macros", Vi: vi})
		}
		// a macro whose text is the name of a command is still a macro: the functions dump must not list it
		out = append(out, c19DumpCase{Name: tag + "/functions dump with a macro whose text is a command name", RC: mode + "\"\\C-xm\": \"yank\"\n", Which: "functions", Vi: vi})
		for _, b := range c19Bodies {
			out = append(out, c19DumpCase{Name: tag + "/macro-body " + b, RC: mode + "\"\\C-xm\": \"" + b + "\"\n", Which: "macros", Vi: vi})
		}
		if !vi {
			for _, v := range c19Vars {
				out = append(out, c19DumpCase{Name: "var " + v.name + "=" + v.value, RC: "set " + v.name + " " + v.value + "\n", Which: "variables"})
			}
		}
	}
	return out
}

func runC19Dumps(c *Ctx) {
	cases := c19DumpCases()
	c.Bounds["dump_cases"] = len(cases)
	jobs := make([]harness.Job, len(cases))
	for i := range cases {
		jobs[i] = c19DumpJob(&cases[i])
		jobs[i].ID = i
	}
	c.Pool.Map(jobs, func(j *harness.Job, t *harness.Trace) {
		cs := &cases[j.ID]
		c.Evaluations++
		c.Traces++
		if t.Err != "" {
			c.HarnessError(t.Err)
			return
		}
		verdicts := c19DumpVerdicts(c, cs, t)
		if len(verdicts) == 0 {
			c.Outcome("dump/ok")
			c.NontrivialN++
			return
		}
		for _, v := range verdicts {
			fp, what := v.fp, v.what
			if fp == "" {
				c.Outcome("dump/" + what)
				continue
			}
			c.Outcome(fp)
			if cd, ok := c.cands[fp]; ok {
				cd.count++
				continue
			}
			jj := *j
			csCopy := *cs
			c.Violate(Witness{Fingerprint: fp, Engine: "session", Job: &jj, Input: jsonRaw(csCopy), What: fmt.Sprintf("[%s] %s", cs.Name, what)}, func() string {
				for _, v2 := range c19DumpVerdicts(c, &csCopy, c.Pool.RunOne(&jj)) {
					if v2.fp == fp {
						return fp
					}
				}
				return ""
			})
		}
	})
	if len(cases) > 0 {
		c.Sample(map[string]any{"dump_case": cases[3].Name, "rc": cases[3].RC})
	}
}

func c19DumpReplay(c *Ctx, w *Witness) (string, string) {
	var cs c19DumpCase
	jsonUnmarshal(w.Input, &cs)
	t := c.Pool.RunOne(w.Job)
	fp, what := "", ""
	for _, v := range c19DumpVerdicts(c, &cs, t) {
		if v.fp == w.Fingerprint || fp == "" {
			fp, what = v.fp, v.what
		}
	}
	return fmt.Sprintf("inputrc:\n%s\ndump output as the terminal received it:\n%s\n%s", cs.RC, c19DumpText(LastCall(t).Raw), what), fp
}
