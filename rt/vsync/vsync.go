// Package vsync replaces "sync" in the instrumented build (import path rewritten): same
// type names; under the scheduler, acquiring a lock is a scheduling point whose enabledness
// comes from a shadow kept in the object. With no scheduler attached the real primitives
// are used.
package vsync

import (
	"sync"

	"github.com/reeflective/readline/internal/verifrt"
)

type (
	Once      = sync.Once
	WaitGroup = sync.WaitGroup
	Map       = sync.Map
	Pool      = sync.Pool
	Locker    = sync.Locker
)

// Mutex is sync.Mutex.
type Mutex struct {
	real sync.Mutex
	st   verifrt.MutexState
	sch  bool
}

func (m *Mutex) Lock() {
	if verifrt.Acquire("lock", &m.st) {
		m.st.W = true
		m.sch = true
		return
	}
	m.real.Lock()
}

func (m *Mutex) Unlock() {
	if m.sch {
		m.st.W = false
		m.sch = false
		return
	}
	m.real.Unlock()
}

// RWMutex is sync.RWMutex.
type RWMutex struct {
	real sync.RWMutex
	st   verifrt.MutexState
	schW bool
	schR int
}

func (m *RWMutex) Lock() {
	if verifrt.Acquire("lock", &m.st) {
		m.st.W = true
		m.schW = true
		return
	}
	m.real.Lock()
}

func (m *RWMutex) Unlock() {
	if m.schW {
		m.st.W = false
		m.schW = false
		return
	}
	m.real.Unlock()
}

func (m *RWMutex) RLock() {
	if verifrt.Acquire("rlock", &m.st) {
		m.st.R++
		m.schR++
		return
	}
	m.real.RLock()
}

func (m *RWMutex) RUnlock() {
	if m.schR > 0 {
		m.st.R--
		m.schR--
		return
	}
	m.real.RUnlock()
}
