package checks

import (
	"fmt"
	"strings"
	"time"

	"verif/internal/harness"
)

// C04 — the terminal shows exactly the buffer, cursor on the right cell.
//
// Explicit-state BFS over edit sequences between redisplays on narrow terminals (wrapping
// happens within a few keystrokes), the state key including the emulator grid, so that
// "preceding longer/shorter contents" (ghosting) is ordinary state. At every main-loop wait
// the worker evaluates the screen oracle (internal/vt CheckInput) against an independent
// reference renderer: every cell of the input area holds the expected glyph, the rest of
// the input rows and the rows below are blank (unless a hint/menu is legitimately shown),
// the terminal cursor is on the cell of the buffer cursor.

type c04Scenario struct {
	w, h   int
	prompt string
	rc     string
	multi  string
	name   string
	hist   []string // history entries (autosuggest stays off unless rc turns it on)
}

func c04PromptWidth(p string) int {
	n := 0
	in := false
	last := p
	if k := strings.LastIndex(p, "\n"); k >= 0 {
		last = p[k+1:]
	}
	for _, r := range last {
		switch {
		case r == 0x1b:
			in = true
		case in:
			if r >= 0x40 && r <= 0x7e && r != '[' {
				in = false
			}
		default:
			n++
		}
	}
	return n
}

func c04Class(v string) string {
	k := v
	if i := strings.Index(k, ":"); i > 0 {
		k = k[:i]
	}
	return k
}

func c04BufferClass(line string) string {
	var cls []string
	has := func(f func(r rune) bool) bool {
		for _, r := range line {
			if f(r) {
				return true
			}
		}
		return false
	}
	if has(func(r rune) bool { return r == '\n' }) {
		cls = append(cls, "multiline")
	}
	if has(func(r rune) bool { return r >= 0x2e80 }) {
		cls = append(cls, "wide")
	}
	if has(func(r rune) bool { return r >= 0x300 && r < 0x370 }) {
		cls = append(cls, "combining")
	}
	if has(func(r rune) bool { return r == '\t' }) {
		cls = append(cls, "tab")
	}
	if len(cls) == 0 {
		return "ascii"
	}
	return strings.Join(cls, "+")
}

func init() {
	Register(&Check{ID: "C04", Level: "model_checking", Run: runC04, Replay: func(c *Ctx, w *Witness) (string, string) {
		t := c.Pool.RunOne(w.Job)
		fp, what := c04VerdictG(t, w.Job.Cfg.W, c04PromptWidth(w.Job.Cfg.Prompt))
		var sb strings.Builder
		for i, wt := range LastCall(t).Waits {
			if wt.Obs != nil {
				fmt.Fprintf(&sb, "wait %d: buffer %q cursor %d  screen-oracle: %q\n", i, wt.Obs.Line, wt.Obs.Pos, wt.ScreenVerdict)
			}
			if wt.Screen != nil {
				for y, l := range wt.Screen.Lines {
					fmt.Fprintf(&sb, "    |%s|%d\n", l, y)
				}
				fmt.Fprintf(&sb, "    cursor=(%d,%d) pending-wrap=%v\n", wt.Screen.CY, wt.Screen.CX, wt.Screen.PendingWrap)
			}
		}
		return fmt.Sprintf("keys: %s\n%s%s", ShowKeys(w.Job.Calls[0]), sb.String(), what), fp
	}})
}

// c04Geometry names the layout feature of a buffer that decides the root-cause class of a
// screen mismatch (computed with the reference renderer's rules).
func c04Geometry(line string, W, c0 int) string {
	rs := []rune(line)
	for i, r := range rs {
		if r >= 0x300 && r < 0x370 && (i == 0 || rs[i-1] == '\n' || rs[i-1] == '\t') {
			return "combining-mark-without-base"
		}
	}
	col := c0
	rowsOfLine := 1
	wrapped, straddle, multi, fills := false, false, false, false
	innerWrapped := false // a line other than the last one wraps
	for _, r := range rs {
		if r == '\n' {
			multi = true
			if col == W {
				fills = true
			}
			if rowsOfLine > 1 {
				innerWrapped = true
			}
			col = c0
			rowsOfLine = 1
			continue
		}
		n, w := 1, 1
		switch {
		case r == '\t':
			n = 5
		case r >= 0x300 && r < 0x370:
			w = 0
		case r >= 0x2e80:
			w = 2
		}
		for k := 0; k < n; k++ {
			if w > 0 && col+w > W {
				if w == 2 && col == W-1 {
					straddle = true
				}
				col = 0
				rowsOfLine++
				wrapped = true
			}
			col += w
		}
	}
	if col == W {
		fills = true
	}
	switch {
	case straddle && wrapped:
		return "wide-glyph-straddles-margin"
	case multi && c0 < 2:
		return "multiline-prompt-narrower-than-secondary-prompt"
	case multi && fills:
		return "multiline-line-exactly-fills-row"
	case multi && rowsOfLine > 1:
		return "multiline-with-wrapped-line"
	case multi && innerWrapped && strings.Count(line, "\n") >= 2:
		// the column marks of the lines between the first and the last are stepped one ROW per LINE
		return "multiline-with-wrapped-line"
	}
	return ""
}

func c04Verdict(t *harness.Trace) (fp, what string) {
	return c04VerdictG(t, 0, 0)
}

func c04VerdictG(t *harness.Trace, W, c0 int) (fp, what string) {
	call := LastCall(t)
	if call.Outcome != "aborted" && call.Outcome != "returned" {
		return "", "not judged (C01): " + call.Outcome + "@" + call.Site
	}
	for i, w := range call.Waits {
		if len(w.Unknown) > 0 {
			return "", "not judged: the emulator does not model " + strings.Join(w.Unknown, ",")
		}
		if w.ScreenVerdict != "" && w.Obs != nil {
			if W > 0 {
				switch g := c04Geometry(w.Obs.Line, W, c0); g {
				case "combining-mark-without-base":
					return "", "not judged: a combining mark without a base glyph attaches to whatever precedes it on the terminal"
				case "":
				default:
					return g, fmt.Sprintf("at wait %d (buffer %q, cursor %d): %s", i, w.Obs.Line, w.Obs.Pos, w.ScreenVerdict)
				}
			}
			return c04Class(w.ScreenVerdict) + "/" + c04BufferClass(w.Obs.Line), fmt.Sprintf("at wait %d (buffer %q, cursor %d): %s", i, w.Obs.Line, w.Obs.Pos, w.ScreenVerdict)
		}
	}
	return "", ""
}

func runC04(c *Ctx) {
	quick := c.Quick()
	if quick {
		c.Deadline = c.Start.Add(8 * time.Minute)
	} else {
		c.Deadline = c.Start.Add(80 * time.Minute)
	}
	utf := "set convert-meta off\nset input-meta on\nset output-meta on\n"
	binds := "\"\\C-x\\C-]t\": tab-insert\n\"\\C-x\\C-]p\": previous-screen-line\n\"\\C-x\\C-]n\": next-screen-line\n"
	scen := []c04Scenario{
		{8, 24, "> ", "", "never", "W8/prompt2", nil},
		{11, 24, "", "", "never", "W11/no-prompt", nil},
		{20, 24, "abcd$", "", "never", "W20/prompt5", nil},
		{8, 24, "\x1b[32m$\x1b[0m ", "", "never", "W8/coloured-prompt", nil},
		{11, 24, "top\n$ ", "", "never", "W11/two-line-prompt", nil},
		{8, 24, "1234567", "", "never", "W8/prompt-W-1", nil},
		{w: 8, h: 24, prompt: "> ", multi: "never", name: "W8/history-entry-longer-than-a-row", hist: []string{"aaaaaaaaaaaaaaaa", "ax\nyy"}},
	}
	// helper rows below the input that come and go: a temporary hint (re-read-init-file), a persistent one
	// (keyboard macro being recorded), the numeric-argument hint - alone and together
	scen = append(scen, c04Scenario{w: 20, h: 24, prompt: "> ", multi: "never", name: "W20/hints-coming-and-going"})
	if !quick {
		scen = append(scen,
			c04Scenario{8, 6, "> ", "", "never", "W8xH6/scrolling", nil},
			c04Scenario{11, 24, "> ", "set multiline-column-numbered on\n", "never", "W11/multiline-column-numbered", nil},
			c04Scenario{20, 24, "> ", "set history-autosuggest on\n", "never", "W20/autosuggest", nil},
		)
	}
	c.Rule = "explicit-state BFS (state = reflective dump of *Shell + emulator grid + cursor) over insert a / wide glyph / combining mark / TAB / newline / pastes of W-1, W, W+1 glyphs / backward-delete-char / kill-line / unix-line-discard / backward-char / forward-char / beginning- and end-of-line / previous- and next-screen-line / clear-screen / transpose-chars, on narrow terminals with several prompts; the screen oracle is evaluated at every main-loop wait against an independent reference renderer. non-trivial = distinct states reached"
	c.Assumptions = []string{"xterm-compatible terminal model written for the harness (cross-checked against tmux during development); the picture must be right under BOTH common behaviours of an erase issued while a wrap is pending (VT100/xterm erase the last cell, tmux/VTE erase nothing)", "TAB is expected as the library documents it (5 blanks), not as a terminal tab stop", "the indent area of continuation rows belongs to the secondary prompt and is not compared"}
	classes := map[string]int64{}
	for si, sc := range scen {
		if c.Expired() {
			c.Cap("internal deadline: scenario " + sc.name + " skipped")
			break
		}
		W := sc.w
		narrow := func(n int) string { return strings.Repeat("x", n) }
		alpha := []Action{
			Act("a", "a"), Act("wide", "中"), Act("combining", "́"), Act("tab-insert", "\x18\x1dt"), Act("newline", "\r"),
			Act(fmt.Sprintf("paste%d", W-1), narrow(W-1)), Act(fmt.Sprintf("paste%d", W), narrow(W)), Act(fmt.Sprintf("paste%d", W+1), narrow(W+1)),
			Act("backward-delete-char", "\x7f"), Act("kill-line", "\x0b"), Act("unix-line-discard", "\x15"),
			Act("backward-char", "\x02"), Act("forward-char", "\x06"), Act("beginning-of-line", "\x01"), Act("end-of-line", "\x05"),
			Act("previous-screen-line", "\x18\x1dp"), Act("next-screen-line", "\x18\x1dn"), Act("clear-screen", "\x0c"), Act("transpose-chars", "\x14"),
		}
		if strings.HasPrefix(sc.name, "W20/hints") {
			alpha = []Action{Act("a", "a"), Act(fmt.Sprintf("paste%d", W+1), narrow(W+1)), Act("backward-char", "\x02"), Act("backward-delete-char", "\x7f"),
				Act("re-read-init-file", "\x18\x12"), Act("start-kbd-macro", "\x18("), Act("end-kbd-macro", "\x18)"), Act("digit-argument", "\x1b2")}
		}
		depth := 3
		if si == 0 || strings.HasPrefix(sc.name, "W20/hints") {
			depth = 4
		}
		if !quick {
			depth = 4
			if si == 0 {
				depth = 5
			}
		}
		cfg := harness.Config{RC: utf + binds + sc.rc, W: sc.w, H: sc.h, Prompt: sc.prompt, Multiline: sc.multi, NoHist: true}
		// the prompt starts on row 3: a display that creeps upwards is visible (on the top row the
		// terminal would clamp the cursor and hide it)
		cfg.PreOutput = "earlier\r\noutput\r\n\r\n"
		if sc.hist != nil {
			cfg.NoHist = false
			cfg.Hist = []harness.HistSpec{{Kind: "default", Lines: sc.hist}}
		}
		if strings.Contains(sc.rc, "autosuggest") {
			cfg.NoHist = false
			cfg.Hist = []harness.HistSpec{{Kind: "default", Lines: []string{"aaa bbb ccc ddd eee"}}}
		}
		check := func(s *Scenario, seed *Seed, path []string, act *Action, job *harness.Job, t *harness.Trace) {
			c.Evaluations++
			fp, what := c04VerdictG(t, sc.w, c04PromptWidth(sc.prompt))
			if n := len(LastCall(t).Waits); n > 0 && LastCall(t).Waits[n-1].Obs != nil {
				classes[c04BufferClass(LastCall(t).Waits[n-1].Obs.Line)]++
			}
			if fp == "" {
				if strings.HasPrefix(what, "not judged") {
					c.Outcome(strings.SplitN(what, "@", 2)[0])
				} else {
					c.Outcome("ok")
				}
				return
			}
			c.Outcome(fp)
			if cd, ok := c.cands[fp]; ok {
				cd.count++
				return
			}
			jj := *job
			jj.Want.Screen = 2
			c.Violate(Witness{Fingerprint: fp, What: fmt.Sprintf("[%s, %dx%d, prompt %q] after %v then %s: %s; keys: %s", sc.name, sc.w, sc.h, sc.prompt, path, act.Name, what, ShowKeys(job.Calls[0])), Engine: "session", Job: &jj}, func() string {
				f, _ := c04VerdictG(c.Pool.RunOne(&jj), sc.w, c04PromptWidth(sc.prompt))
				return f
			})
		}
		s := &Scenario{Name: sc.name, Cfg: cfg, Seeds: []Seed{{Name: "empty"}}, Alphabet: alpha, Depth: depth,
			Want: harness.Want{Hash: 2, Obs: 2, ScreenCheck: true}, Check: check, MaxStates: 4000}
		before, sb := c.Transitions, c.States
		c.BFS(s)
		c.Sample(map[string]any{"scenario": sc.name, "terminal": fmt.Sprintf("%dx%d", sc.w, sc.h), "prompt": sc.prompt, "depth": depth, "states": c.States - sb, "transitions": c.Transitions - before})
	}
	c.NontrivialN = c.States
	c.Extra = map[string]any{"final_buffer_classes": classes}
}
