// Package vt is a deliberately small xterm-compatible terminal emulator used by the
// verification harness. It models exactly what the library emits: a cell grid with
// double-width and zero-width cells, deferred autowrap, CR LF BS BEL HT, cursor
// movement, erase, cursor visibility, cursor style, DSR 6, save/restore and OSC.
//
// Anything it does not know is recorded in Unknown and makes the screen oracles of the
// harness report a *harness limitation*, never a violation.
package vt

import (
	"fmt"
	"strings"
	"unicode/utf8"
)

// Cell is one character cell. W is 1 or 2 for a cell that starts a glyph, 0 for the
// right half of a double-width glyph, and R == 0 means "blank".
type Cell struct {
	R    rune
	Comb string // combining marks attached to the glyph
	W    int8
	Cont bool // right half of a wide glyph
}

func (c Cell) Blank() bool { return !c.Cont && (c.R == 0 || c.R == ' ') && c.Comb == "" }

// Term is the emulated terminal.
type Term struct {
	W, H        int
	Rows        [][]Cell
	CX, CY      int
	PendingWrap bool
	Hidden      bool
	CursorStyle int // parameter of the last CSI n SP q, -1 if none seen
	StyleCount  int // number of cursor style sequences seen
	Scrolled    int // lines scrolled off the top
	Unknown     []string
	Bells       int
	// LaxEraseAtMargin selects the other common behaviour for "erase to end of line /
	// screen" while a wrap is pending at the right margin: xterm and the VT100 erase the
	// last cell (the cursor is on it); tmux and others treat the cursor as past it and
	// erase nothing on that row. Screen oracles require the picture to be right under both.
	LaxEraseAtMargin bool
	savedX           int
	savedY           int

	// OnDSR is called (synchronously, from Write) when CSI 6 n is received.
	OnDSR func(row, col int)
	// OnOSC is called when an OSC string terminates.
	OnOSC func(s string)

	// parser
	st     int
	params []byte
	osc    []byte
	utf    []byte
}

const (
	stGround = iota
	stEsc
	stCSI
	stOSC
	stOSCEsc
	stCharset
)

// New returns a blank terminal of the given size with the cursor at the top left.
func New(w, h int) *Term {
	t := &Term{W: w, H: h, CursorStyle: -1}
	t.Rows = make([][]Cell, h)
	for i := range t.Rows {
		t.Rows[i] = make([]Cell, w)
	}
	return t
}

// Resize changes the size, truncating or padding rows (no reflow, as xterm).
func (t *Term) Resize(w, h int) {
	rows := make([][]Cell, h)
	for y := 0; y < h; y++ {
		rows[y] = make([]Cell, w)
		if y < len(t.Rows) {
			copy(rows[y], t.Rows[y])
		}
	}
	t.Rows, t.W, t.H = rows, w, h
	if t.CX >= w {
		t.CX = w - 1
	}
	if t.CY >= h {
		t.CY = h - 1
	}
	t.PendingWrap = false
}

// RuneWidth is the harness' own width table (independent of uniseg): it is only
// trusted for the runes of the harness alphabets.
func RuneWidth(r rune) int {
	switch {
	case r == 0:
		return 0
	case r < 0x20 || (r >= 0x7f && r < 0xa0):
		return 0
	case r >= 0x300 && r <= 0x36f:
		return 0
	case r == 0x200b || r == 0x200c || r == 0x200d || r == 0xfe0f:
		return 0
	case r >= 0x1100 && r <= 0x115f,
		r >= 0x2e80 && r <= 0x303e,
		r >= 0x3041 && r <= 0x33ff,
		r >= 0x3400 && r <= 0x4dbf,
		r >= 0x4e00 && r <= 0x9fff,
		r >= 0xa000 && r <= 0xa4cf,
		r >= 0xac00 && r <= 0xd7a3,
		r >= 0xf900 && r <= 0xfaff,
		r >= 0xfe30 && r <= 0xfe6f,
		r >= 0xff00 && r <= 0xff60,
		r >= 0xffe0 && r <= 0xffe6,
		r >= 0x1f300 && r <= 0x1f64f,
		r >= 0x1f900 && r <= 0x1f9ff,
		r >= 0x20000 && r <= 0x3fffd:
		return 2
	}
	return 1
}

// Write feeds output bytes to the terminal.
func (t *Term) Write(p []byte) {
	for _, b := range p {
		t.feed(b)
	}
}

func (t *Term) feed(b byte) {
	switch t.st {
	case stGround:
		if len(t.utf) > 0 {
			if b&0xc0 == 0x80 {
				t.utf = append(t.utf, b)
				if utf8.FullRune(t.utf) {
					r, _ := utf8.DecodeRune(t.utf)
					t.utf = t.utf[:0]
					t.put(r)
				}
				return
			}
			// invalid continuation: emit replacement and reprocess b
			t.utf = t.utf[:0]
			t.put(utf8.RuneError)
		}
		switch {
		case b == 0x1b:
			t.st = stEsc
		case b == '\r':
			t.CX = 0
			t.PendingWrap = false
		case b == '\n', b == 0x0b, b == 0x0c:
			t.lineFeed()
		case b == '\b':
			if t.CX > 0 {
				t.CX--
			}
			t.PendingWrap = false
		case b == '\t':
			nx := (t.CX/8 + 1) * 8
			if nx > t.W-1 {
				nx = t.W - 1
			}
			t.CX = nx
		case b == 0x07:
			t.Bells++
		case b < 0x20 || b == 0x7f:
			// other C0 controls and DEL are ignored by a terminal
		case b < 0x80:
			t.put(rune(b))
		case b >= 0xc0:
			t.utf = append(t.utf[:0], b)
		default:
			t.put(utf8.RuneError)
		}
	case stEsc:
		t.st = stGround
		switch b {
		case '[':
			t.st = stCSI
			t.params = t.params[:0]
		case ']':
			t.st = stOSC
			t.osc = t.osc[:0]
		case '7':
			t.savedX, t.savedY = t.CX, t.CY
		case '8':
			t.CX, t.CY = t.savedX, t.savedY
			t.PendingWrap = false
		case '(', ')':
			t.st = stCharset
		case '=', '>':
		case 'M': // reverse index
			if t.CY > 0 {
				t.CY--
			}
			t.PendingWrap = false
		case 0x1b:
			t.st = stEsc
		default:
			t.unknown("ESC " + string(rune(b)))
		}
	case stCharset:
		t.st = stGround
	case stCSI:
		if b >= 0x40 && b <= 0x7e {
			t.st = stGround
			t.csi(string(t.params), b)
			return
		}
		if b == 0x1b { // aborted sequence
			t.unknown("CSI aborted " + string(t.params))
			t.st = stEsc
			return
		}
		if b < 0x20 {
			// C0 inside CSI is executed; we only care about CR/LF/BS
			save := t.st
			t.st = stGround
			t.feed(b)
			t.st = save
			return
		}
		t.params = append(t.params, b)
	case stOSC:
		switch b {
		case 0x07:
			t.st = stGround
			if t.OnOSC != nil {
				t.OnOSC(string(t.osc))
			}
		case 0x1b:
			t.st = stOSCEsc
		default:
			t.osc = append(t.osc, b)
		}
	case stOSCEsc:
		t.st = stGround
		if b == '\\' {
			if t.OnOSC != nil {
				t.OnOSC(string(t.osc))
			}
		} else {
			t.unknown("OSC ESC " + string(rune(b)))
		}
	}
}

func (t *Term) unknown(s string) {
	if len(t.Unknown) < 16 {
		t.Unknown = append(t.Unknown, s)
	}
}

func (t *Term) lineFeed() {
	if t.CY == t.H-1 {
		t.scrollUp()
	} else {
		t.CY++
	}
	// xterm resets the wrap flag on index.
	t.PendingWrap = false
}

func (t *Term) scrollUp() {
	first := t.Rows[0]
	copy(t.Rows, t.Rows[1:])
	for i := range first {
		first[i] = Cell{}
	}
	t.Rows[t.H-1] = first
	t.Scrolled++
}

func (t *Term) put(r rune) {
	w := RuneWidth(r)
	if w == 0 {
		if r < 0x20 || (r >= 0x7f && r < 0xa0) {
			return // C1 / stray control: ignored
		}
		// combining mark: attach to the previous glyph
		x := t.CX - 1
		if t.PendingWrap {
			x = t.CX
		}
		if x < 0 {
			return
		}
		if t.Rows[t.CY][x].Cont && x > 0 {
			x--
		}
		t.Rows[t.CY][x].Comb += string(r)
		return
	}
	if t.PendingWrap {
		t.CX = 0
		t.lineFeed()
		t.PendingWrap = false
	}
	if w == 2 && t.CX+2 > t.W {
		if t.W < 2 {
			return
		}
		// does not fit: wrap first, leaving the last cell as it is
		t.CX = 0
		t.lineFeed()
	}
	row := t.Rows[t.CY]
	t.clearGlyphAt(t.CX)
	if w == 2 {
		t.clearGlyphAt(t.CX + 1)
	}
	row[t.CX] = Cell{R: r, W: int8(w)}
	if w == 2 {
		row[t.CX+1] = Cell{Cont: true}
	}
	t.CX += w
	if t.CX >= t.W {
		t.CX = t.W - 1
		t.PendingWrap = true
	}
}

// clearGlyphAt erases whatever glyph covers cell x of the cursor row, so that
// overwriting half of a wide glyph blanks the other half too (as xterm does).
func (t *Term) clearGlyphAt(x int) {
	row := t.Rows[t.CY]
	if x < 0 || x >= t.W {
		return
	}
	if row[x].Cont && x > 0 {
		row[x-1] = Cell{}
	}
	if row[x].W == 2 && x+1 < t.W {
		row[x+1] = Cell{}
	}
	row[x] = Cell{}
}

func parseParams(s string) (priv byte, inter string, nums []int, ok bool) {
	ok = true
	if len(s) > 0 && (s[0] == '?' || s[0] == '>' || s[0] == '=' || s[0] == '<') {
		priv = s[0]
		s = s[1:]
	}
	// intermediates are 0x20-0x2f at the end
	end := len(s)
	for end > 0 && s[end-1] >= 0x20 && s[end-1] <= 0x2f {
		end--
	}
	inter = s[end:]
	s = s[:end]
	if s == "" {
		return
	}
	for _, f := range strings.Split(s, ";") {
		n := 0
		if f == "" {
			nums = append(nums, -1)
			continue
		}
		for _, c := range f {
			if c < '0' || c > '9' {
				// ':' sub-parameters etc.
				if c == ':' {
					continue
				}
				ok = false
				return
			}
			n = n*10 + int(c-'0')
			if n > 1<<20 {
				n = 1 << 20
			}
		}
		nums = append(nums, n)
	}
	return
}

func arg(nums []int, i, def int) int {
	if i < len(nums) && nums[i] > 0 {
		return nums[i]
	}
	if i < len(nums) && nums[i] == 0 && def == 0 {
		return 0
	}
	return def
}

func (t *Term) csi(params string, final byte) {
	priv, inter, nums, ok := parseParams(params)
	if !ok {
		t.unknown(fmt.Sprintf("CSI %q %c", params, final))
		return
	}
	if priv != 0 {
		switch {
		case priv == '?' && (final == 'h' || final == 'l'):
			for _, n := range nums {
				switch n {
				case 25:
					t.Hidden = final == 'l'
				case 1, 7, 12, 1000, 1002, 1003, 1004, 1006, 1049, 2004:
					// modes irrelevant to the oracles
				default:
					t.unknown(fmt.Sprintf("CSI ?%d%c", n, final))
				}
			}
		default:
			t.unknown(fmt.Sprintf("CSI %q %c", params, final))
		}
		return
	}
	if inter != "" {
		if inter == " " && final == 'q' {
			t.CursorStyle = arg(nums, 0, 0)
			t.StyleCount++
			return
		}
		t.unknown(fmt.Sprintf("CSI %q %c", params, final))
		return
	}
	switch final {
	case 'A':
		t.CY -= arg(nums, 0, 1)
		if t.CY < 0 {
			t.CY = 0
		}
		t.PendingWrap = false
	case 'B', 'e':
		t.CY += arg(nums, 0, 1)
		if t.CY > t.H-1 {
			t.CY = t.H - 1
		}
		t.PendingWrap = false
	case 'C', 'a':
		t.CX += arg(nums, 0, 1)
		if t.CX > t.W-1 {
			t.CX = t.W - 1
		}
		t.PendingWrap = false
	case 'D':
		t.CX -= arg(nums, 0, 1)
		if t.CX < 0 {
			t.CX = 0
		}
		t.PendingWrap = false
	case 'E':
		t.CY += arg(nums, 0, 1)
		if t.CY > t.H-1 {
			t.CY = t.H - 1
		}
		t.CX = 0
		t.PendingWrap = false
	case 'F':
		t.CY -= arg(nums, 0, 1)
		if t.CY < 0 {
			t.CY = 0
		}
		t.CX = 0
		t.PendingWrap = false
	case 'G', '`':
		t.CX = clamp(arg(nums, 0, 1)-1, 0, t.W-1)
		t.PendingWrap = false
	case 'd':
		t.CY = clamp(arg(nums, 0, 1)-1, 0, t.H-1)
		t.PendingWrap = false
	case 'H', 'f':
		t.CY = clamp(arg(nums, 0, 1)-1, 0, t.H-1)
		t.CX = clamp(arg(nums, 1, 1)-1, 0, t.W-1)
		t.PendingWrap = false
	case 'J':
		switch arg(nums, 0, 0) {
		case 0:
			if !(t.LaxEraseAtMargin && t.PendingWrap) {
				t.eraseLine(t.CY, t.CX, t.W)
			}
			for y := t.CY + 1; y < t.H; y++ {
				t.eraseLine(y, 0, t.W)
			}
		case 1:
			for y := 0; y < t.CY; y++ {
				t.eraseLine(y, 0, t.W)
			}
			t.eraseLine(t.CY, 0, t.CX+1)
		case 2:
			for y := 0; y < t.H; y++ {
				t.eraseLine(y, 0, t.W)
			}
		case 3:
			// scroll-back only
		default:
			t.unknown(fmt.Sprintf("CSI %sJ", params))
		}
	case 'K':
		switch arg(nums, 0, 0) {
		case 0:
			if !(t.LaxEraseAtMargin && t.PendingWrap) {
				t.eraseLine(t.CY, t.CX, t.W)
			}
		case 1:
			t.eraseLine(t.CY, 0, t.CX+1)
		case 2:
			t.eraseLine(t.CY, 0, t.W)
		default:
			t.unknown(fmt.Sprintf("CSI %sK", params))
		}
	case 'm':
		// SGR: ignored by the oracles
	case 'n':
		switch arg(nums, 0, 0) {
		case 6:
			if t.OnDSR != nil {
				t.OnDSR(t.CY+1, t.CX+1)
			}
		case 5:
		default:
			t.unknown(fmt.Sprintf("CSI %sn", params))
		}
	case 's':
		t.savedX, t.savedY = t.CX, t.CY
	case 'u':
		t.CX, t.CY = t.savedX, t.savedY
		t.PendingWrap = false
	case 'r', 't', 'h', 'l':
		// margins / window ops / ANSI modes: not used by the library
		t.unknown(fmt.Sprintf("CSI %s%c", params, final))
	default:
		t.unknown(fmt.Sprintf("CSI %s%c", params, final))
	}
}

func clamp(v, lo, hi int) int {
	if v < lo {
		return lo
	}
	if v > hi {
		return hi
	}
	return v
}

// eraseLine blanks cells [from,to) of row y; erasing half of a wide glyph blanks
// the whole glyph. Erase does not touch the pending-wrap flag (xterm).
func (t *Term) eraseLine(y, from, to int) {
	row := t.Rows[y]
	if from < 0 {
		from = 0
	}
	if to > t.W {
		to = t.W
	}
	if from < to && row[from].Cont && from > 0 {
		row[from-1] = Cell{}
	}
	if to-1 >= from && to < t.W && row[to-1].W == 2 {
		row[to] = Cell{}
	}
	for x := from; x < to; x++ {
		row[x] = Cell{}
	}
}

// RowString renders one row as text: blanks as spaces, trailing blanks trimmed.
func (t *Term) RowString(y int) string {
	var sb strings.Builder
	for _, c := range t.Rows[y] {
		switch {
		case c.Cont:
		case c.R == 0:
			sb.WriteByte(' ')
		default:
			sb.WriteRune(c.R)
			sb.WriteString(c.Comb)
		}
	}
	return strings.TrimRight(sb.String(), " ")
}

// Snap is a serialisable snapshot of the visible state.
type Snap struct {
	W, H        int
	Lines       []string // trailing blank rows dropped
	CX, CY      int
	PendingWrap bool
	Hidden      bool
	CursorStyle int
	Scrolled    int
	Unknown     []string `json:",omitempty"`
}

// Snapshot returns the visible state.
func (t *Term) Snapshot() *Snap {
	s := &Snap{W: t.W, H: t.H, CX: t.CX, CY: t.CY, PendingWrap: t.PendingWrap,
		Hidden: t.Hidden, CursorStyle: t.CursorStyle, Scrolled: t.Scrolled}
	last := -1
	lines := make([]string, t.H)
	for y := 0; y < t.H; y++ {
		lines[y] = t.RowString(y)
		if lines[y] != "" {
			last = y
		}
	}
	s.Lines = lines[:last+1]
	s.Unknown = append(s.Unknown, t.Unknown...)
	return s
}

// Line returns row y of a snapshot ("" beyond the last non-blank row).
func (s *Snap) Line(y int) string {
	if y < 0 || y >= len(s.Lines) {
		return ""
	}
	return s.Lines[y]
}

// Key returns a compact string identifying the visible state (for state hashing).
func (s *Snap) Key() string {
	return fmt.Sprintf("%dx%d@%d,%d,%v,%v,%d|%s", s.W, s.H, s.CX, s.CY, s.PendingWrap, s.Hidden, s.CursorStyle, strings.Join(s.Lines, "\n"))
}

// --- reference renderer (independent of the library's arithmetic) ---

// Glyph is one expected glyph cell of the input area.
type Glyph struct {
	Row, Col int
	R        rune
	Comb     string
	W        int
}

// Layout lays a buffer out from (0, c0) on a terminal of the given width the way a
// VT100-compatible terminal shows it when it is printed from that cell: wrapping at the
// width (a double-width glyph that does not fit in the last column wraps early, leaving
// that column blank), a new row at column indent after every embedded newline, TAB as tab
// blanks. It returns the glyph cells, the cell of the cursor position and the number of
// rows used.
func Layout(width, c0, indent int, buf []rune, cursor int, tab int) (cells []Glyph, cr, cc, rows int) {
	row, col := 0, c0
	cr, cc = -1, -1
	mark := func() {
		if cr < 0 {
			cr, cc = row, col
			if cc >= width {
				cr, cc = row+1, 0
			}
		}
	}
	for i, r := range buf {
		if r == '\n' {
			if i == cursor {
				mark()
			}
			row++
			col = indent
			continue
		}
		if r == '\t' {
			for k := 0; k < tab; k++ {
				if col+1 > width {
					row++
					col = 0
				}
				if i == cursor && k == 0 {
					mark()
				}
				cells = append(cells, Glyph{row, col, ' ', "", 1})
				col++
			}
			continue
		}
		w := RuneWidth(r)
		if w == 0 {
			if i == cursor {
				mark()
			}
			if n := len(cells); n > 0 && cells[n-1].Row == row {
				cells[n-1].Comb += string(r)
			}
			continue
		}
		if col+w > width {
			row++
			col = 0
		}
		if i == cursor {
			mark()
		}
		cells = append(cells, Glyph{row, col, r, "", w})
		col += w
	}
	if cursor >= len(buf) {
		mark()
	}
	rows = row + 1
	if col >= width {
		// exact fill: the cursor (and any following output) goes to the next row
		rows = row + 2
	}
	return cells, cr, cc, rows
}

// CheckInput compares the terminal with what it must show for a prompt whose last line is
// promptLast (visible text) followed by buf with the cursor at index cursor: every cell of
// the input area holds the expected glyph, the rest of the input rows and (unless
// relaxedBelow: a hint or a menu is legitimately displayed) every row below is blank, and
// the terminal cursor is on the cell of the buffer cursor. The input area is anchored on
// the terminal cursor row, so text printed above the prompt does not matter. It returns ""
// or "<class>: <description>".
func CheckInput(t *Term, promptLast string, buf []rune, cursor int, relaxedBelow bool, tab int) string {
	c0 := 0
	for _, r := range promptLast {
		c0 += RuneWidth(r)
	}
	if c0 >= t.W {
		return "" // prompt as wide as the terminal: outside the model
	}
	cells, cr, cc, rows := Layout(t.W, c0, c0, buf, cursor, tab)
	if t.PendingWrap {
		return fmt.Sprintf("cursor-left-in-pending-wrap: the terminal cursor sits on the last cell of row %d (deferred wrap) instead of cell (%d,%d) relative to the input start", t.CY, cr, cc)
	}
	if t.CX != cc {
		return fmt.Sprintf("cursor-column: terminal cursor column %d, buffer cursor %d of %q is at column %d", t.CX, cursor, string(buf), cc)
	}
	r0 := t.CY - cr
	if r0+rows-1 >= t.H+0 && !(r0+rows-1 == t.H && rows > 1) {
		// the input would extend below the screen: impossible unless it scrolled; anchor says otherwise
	}
	// rows that start after an embedded newline (their indent area belongs to the secondary prompt)
	nlRow := map[int]bool{}
	{
		row, col := 0, c0
		for _, r := range buf {
			if r == '\n' {
				row++
				col = c0
				nlRow[row] = true
				continue
			}
			n := 1
			w := RuneWidth(r)
			if r == '\t' {
				n, w = tab, 1
			}
			for k := 0; k < n; k++ {
				if w > 0 && col+w > t.W {
					row++
					col = 0
				}
				col += w
			}
		}
	}
	covered := map[[2]int]bool{}
	for _, g := range cells {
		row := r0 + g.Row
		for k := 0; k < g.W; k++ {
			covered[[2]int{g.Row, g.Col + k}] = true
		}
		if row < 0 {
			continue
		}
		if row >= t.H {
			return fmt.Sprintf("cursor-row: glyph %q of the buffer belongs on row %d below the screen (cursor row %d, cursor cell row offset %d)", string(g.R), row, t.CY, cr)
		}
		c := t.Rows[row][g.Col]
		got := c.R
		if got == 0 {
			got = ' '
		}
		if got != g.R || c.Comb != g.Comb || (g.W == 2 && (g.Col+1 >= t.W || !t.Rows[row][g.Col+1].Cont)) || c.Cont {
			return fmt.Sprintf("glyph: cell (%d,%d) shows %q%q, expected %q%q (row text %q)", row, g.Col, string(got), c.Comb, string(g.R), g.Comb, t.RowString(row))
		}
	}
	// prompt cells and blanks on the input rows
	lastRow := rows - 1
	for k := 0; k <= lastRow; k++ {
		row := r0 + k
		if row < 0 || row >= t.H {
			continue
		}
		for col := 0; col < t.W; col++ {
			if covered[[2]int{k, col}] {
				continue
			}
			if k == 0 && col < c0 {
				continue // prompt cells, checked below
			}
			if nlRow[k] && col < c0 {
				continue // secondary prompt / multiline column area
			}
			if !t.Rows[row][col].Blank() {
				return fmt.Sprintf("ghost: cell (%d,%d) of the input area shows %q but nothing belongs there (row text %q, buffer %q)", row, col, string(t.Rows[row][col].R), t.RowString(row), string(buf))
			}
		}
	}
	if r0 >= 0 && r0 < t.H {
		col := 0
		for _, r := range promptLast {
			w := RuneWidth(r)
			if w == 0 {
				continue
			}
			got := t.Rows[r0][col].R
			if got == 0 {
				got = ' '
			}
			if got != r {
				return fmt.Sprintf("prompt: cell (%d,%d) shows %q, the prompt has %q there (row text %q)", r0, col, string(got), string(r), t.RowString(r0))
			}
			col += w
		}
	}
	if !relaxedBelow {
		for row := r0 + lastRow + 1; row < t.H; row++ {
			if row < 0 {
				continue
			}
			for col := 0; col < t.W; col++ {
				if !t.Rows[row][col].Blank() {
					return fmt.Sprintf("below: row %d below the input shows %q (nothing is displayed there)", row, t.RowString(row))
				}
			}
		}
	}
	return ""
}
