package checks

import (
	"fmt"
	"strings"
	"time"

	"verif/internal/harness"
)

// C07 — undo walks back through real earlier states; redo reverses undo.
//
// Explicit-state BFS over an alphabet of edits, movements, kill/yank, history walks, undo
// and redo (the reflective state key contains the undo stacks, so two paths merge only if
// their undo futures agree). In every reached state, law probes are appended as extra
// executions: undo until stable (<= 64 presses); undo^n redo^n for n = 1..3; undo, edit,
// redo. Oracles (all on buffers observed at waits through the API):
//  1. every buffer produced by undo was shown before in this session (or is a history entry);
//  2. undoing repeatedly ends in the line's initial content;
//  3. undo^n redo^n restores the buffer text that preceded them;
//  4. after undo + edit, redo changes nothing (the redo branch is discarded).

type c07Mode struct {
	name, rc  string
	pre       []string
	alpha     []Action
	undo      string
	redo      string
	edit      string
	editSaved string   // an edit that is saved as an undo state of its own (a kill)
	typed     []string // an edit that is NOT saved as a state of its own (typed text)
	longSeed  []string // keys of the second seed: a longer buffer with the cursor at its start
}

func c07Modes(quick bool) []c07Mode {
	emacsRC := "\"\\C-x\\C-]r\": redo\n\"\\C-x\\C-]h\": accept-and-hold\n"
	e := []Action{Act("a", "a"), Act("b", "b"), Act("space", " "), Act("paste", "xy z"), Act("backward-delete-char", "\x7f"), Act("kill-word", "\x1bd"),
		Act("unix-word-rubout", "\x17"), Act("kill-line", "\x0b"), Act("yank", "\x19"), Act("backward-char", "\x02"), Act("beginning-of-line", "\x01"),
		Act("previous-history", "\x10"), Act("next-history", "\x0e"), Act("undo", "\x1f"), Act("redo", "\x18\x1dr"), Act("M-2", "\x1b2"), Act("delete-char", "\x04")}
	if !quick {
		e = append(e, Act("unix-line-discard", "\x15"), Act("transpose-chars", "\x14"), Act("up-case-word", "\x1bu"),
			Act("forward-char", "\x06"), Act("end-of-line", "\x05"), Act("revert-line", "\x1br"), Act("transpose-words", "\x1bt"))
	}
	viRC := "set editing-mode vi\nset keymap vi-insert\n\"\\C-x\\C-]h\": accept-and-hold\nset keymap vi-command\n\"\\C-r\": redo\n"
	v := []Action{Act("i", "i"), Act("a-key", "a"), Act("b-key", "b"), Act("esc", "\x1b"), Act("x", "x"), Act("dw", "dw"), Act("D", "D"), Act("p", "p"),
		Act("u", "u"), Act("redo", "\x12"), Act("h", "h"), Act("0", "0"), Act("k", "k"), Act("j", "j"), Act("2", "2")}
	if !quick {
		v = append(v, Act("X", "X"), Act("l", "l"), Act("$", "$"), Act("~", "~"), Act("cw", "cw"), Act("A", "A"))
	}
	return []c07Mode{
		{name: "emacs", rc: emacsRC, alpha: e, undo: "\x1f", redo: "\x18\x1dr", edit: "q", editSaved: "\x19", typed: []string{"q"}, longSeed: []string{"abcd", "\x01"}},
		{name: "vi", rc: viRC, pre: []string{"\x1b"}, alpha: v, undo: "u", redo: "\x12", edit: "x", editSaved: "P", typed: []string{"i", "q", "\x1b"}, longSeed: []string{"i", "abcd", "\x1b", "0"}},
	}
}

func init() {
	Register(&Check{ID: "C07", Level: "model_checking", Run: runC07, Replay: func(c *Ctx, w *Witness) (string, string) {
		var in struct {
			Kind string
			N    int
			H    []string
			Walk bool
			Base int
			Init string
		}
		jsonUnmarshal(w.Input, &in)
		t := c.Pool.RunOne(w.Job)
		fp, what := c07ProbeInit(in.Kind, in.N, in.H, in.Init, in.Walk, in.Base, t)
		var lines []string
		for _, wt := range LastCall(t).Waits {
			if wt.Obs != nil {
				lines = append(lines, fmt.Sprintf("%q", wt.Obs.Line))
			}
		}
		return fmt.Sprintf("keys: %s\nbuffers at waits: %s\n%s", ShowKeys(w.Job.Calls[0]), strings.Join(lines, " "), what), fp
	}})
}

// c07Probe judges one probe execution. Waits are recorded from the end of the mode
// preamble; base = index of the wait at which the probed state was reached.
func c07Probe(kind string, n int, H []string, walked bool, base int, t *harness.Trace) (fp, what string) {
	return c07ProbeInit(kind, n, H, "", walked, base, t)
}

// c07ProbeInit: init is the content the line of this call started with (empty, or the line held by
// accept-and-hold in the previous call).
func c07ProbeInit(kind string, n int, H []string, init string, walked bool, base int, t *harness.Trace) (fp, what string) {
	call := LastCall(t)
	if call.Outcome != "aborted" {
		return "", "not judged (C01): " + call.Outcome + "@" + call.Site
	}
	var lines []string
	for _, w := range call.Waits {
		if w.Obs == nil || w.Obs.Kind != "main" {
			return "", "not judged: argument wait inside the path"
		}
		lines = append(lines, w.Obs.Line)
	}
	if base >= len(lines) {
		return "", "not judged: short trace"
	}
	shown := map[string]bool{init: true} // the line's initial content was shown at the first wait
	for _, h := range H {
		shown[h] = true
	}
	for _, l := range lines[:base+1] {
		shown[l] = true
	}
	at := lines[base]
	switch kind {
	case "undo-until-stable":
		prev := at
		stable := 0
		for i := base + 1; i < len(lines); i++ {
			if !shown[lines[i]] {
				return "undo-produces-a-buffer-never-shown", fmt.Sprintf("undo #%d produced %q, which was never shown for this line (shown: %s)", i-base, lines[i], keysOf(shown))
			}
			if lines[i] == prev {
				stable++
			} else {
				stable = 0
			}
			prev = lines[i]
		}
		if stable < 2 {
			return "", "not judged: undo did not become stable within the presses given"
		}
		final := lines[len(lines)-1]
		if !walked && final != init {
			return "undo-does-not-reach-initial-content", fmt.Sprintf("undoing repeatedly from %q ends in %q, the line started as %q", at, final, init)
		}
		if walked && final != init && !inList(H, final) {
			return "undo-does-not-reach-initial-content", fmt.Sprintf("undoing repeatedly from %q ends in %q, neither empty nor a history entry %q", at, final, H)
		}
	case "undo-redo":
		final := lines[len(lines)-1]
		for i := base + 1; i <= base+n && i < len(lines); i++ {
			if !shown[lines[i]] {
				return "undo-produces-a-buffer-never-shown", fmt.Sprintf("undo #%d produced %q, never shown before", i-base, lines[i])
			}
		}
		// only for n <= number of undo steps actually available: an undo that changes
		// nothing means the oldest state was reached (further redos then go forward)
		for i := base + 1; i <= base+n && i < len(lines); i++ {
			if lines[i] == lines[i-1] {
				return "", "not judged: fewer than n undo steps available"
			}
		}
		if final != at {
			return "undo-redo-not-inverse", fmt.Sprintf("buffer %q, then %d undo(s) (%q) and %d redo(s) give %q", at, n, lines[base+1:min(base+1+n, len(lines))], n, final)
		}
	case "undo-all-edit-undo":
		// lines: at, 10 undos, the typed edit (n-10 keys), one undo
		k := base + 10
		if base+n+1 >= len(lines) {
			return "", "not judged: short trace"
		}
		bottom, edited, after := lines[k], lines[base+n], lines[base+n+1]
		if lines[k-1] != bottom || edited == bottom {
			return "", "not judged: bottom not reached within 10 undos / edit changed nothing"
		}
		if after != bottom {
			return "undo-after-new-edit-reaches-discarded-branch", fmt.Sprintf("buffer %q: undoing all the way gives %q, typing gives %q, undoing that gives %q instead of %q", at, bottom, edited, after, bottom)
		}
	case "undo-edit-undo":
		if base+3 < len(lines) && len(lines)-1-base > 3 {
			// typed-edit variant: at, undo, several keys, undo
			last := len(lines) - 1
			if lines[base+1] == at || lines[last-1] == lines[base+1] {
				return "", "not judged: nothing to undo / edit changed nothing"
			}
			if lines[last] != lines[base+1] {
				return "undo-after-new-edit-reaches-discarded-branch", fmt.Sprintf("buffer %q: undo gives %q, typing gives %q, undoing that gives %q instead of %q", at, lines[base+1], lines[last-1], lines[last], lines[base+1])
			}
			return "", ""
		}
		// lines: at, after undo, after edit, after second undo: undoing the new edit
		// must come back to the state undone to, never to the discarded branch
		if base+3 >= len(lines) {
			return "", "not judged: short trace"
		}
		if lines[base+1] == at || lines[base+2] == lines[base+1] {
			return "", "not judged: nothing to undo / edit changed nothing"
		}
		if lines[base+3] != lines[base+1] {
			return "undo-after-new-edit-reaches-discarded-branch", fmt.Sprintf("buffer %q: undo gives %q, an edit gives %q, undoing that edit gives %q instead of %q", at, lines[base+1], lines[base+2], lines[base+3], lines[base+1])
		}
	case "undo-edit-redo":
		// lines: at, after undo, after edit, after redo
		if base+3 >= len(lines) {
			return "", "not judged: short trace"
		}
		if lines[base+3] != lines[base+2] {
			return "redo-after-new-edit-not-discarded", fmt.Sprintf("buffer %q: undo gives %q, an edit gives %q, then redo changes it to %q", at, lines[base+1], lines[base+2], lines[base+3])
		}
	}
	return "", ""
}

func keysOf(m map[string]bool) string {
	var ks []string
	for k := range m {
		ks = append(ks, fmt.Sprintf("%q", k))
	}
	return strings.Join(ks, " ")
}

func inList(l []string, s string) bool {
	for _, x := range l {
		if x == s {
			return true
		}
	}
	return false
}

func runC07(c *Ctx) {
	quick := c.Quick()
	depth := 3
	if quick {
		c.Deadline = c.Start.Add(6 * time.Minute)
	} else {
		depth = 4
		c.Deadline = c.Start.Add(60 * time.Minute)
	}
	c.Rule = fmt.Sprintf("explicit-state BFS to depth %d over edit/movement/kill/yank/history-walk/undo/redo commands in emacs and vi, histories {none, 2 entries}; in every reached state 6 law probes (undo until stable, undo^n redo^n for n=1..3, undo+edit+redo, undo+edit+undo) are executed; buffers observed at every wait. non-trivial = distinct states reached (the state key contains the undo stacks)", depth)
	c.Assumptions = []string{"'previously shown for that line' is checked against all buffers shown earlier in the session plus the history entries (the history position is not observable through the API)", "sequences beyond the depth bound are not explored (no random tail: sampling is a different technique)"}
	c.Bounds = map[string]any{"depth": depth, "probes_per_state": 8, "histories": []string{"none", "[one, two words]", "[one, two words] in the second call of a Shell whose first call typed foo, walked up and accepted a history line", "[one, two words] in the second call after accept-and-hold of abc"}}
	H2 := []string{"one", "two words"}
	for _, m := range c07Modes(quick) {
		// hi == 2: the search starts in the SECOND call of a Shell whose first call typed on the input
		// line, walked up to a history line and accepted that one (state left over between calls)
		// hi == 3: the SECOND call after the first one ended with accept-and-hold (this call's line starts as the held text)
		for hi, H := range [][]string{nil, H2, H2, H2} {
			initLine := ""
			if c.Expired() {
				c.Cap("internal deadline: " + m.name + " skipped")
				break
			}
			cfg := harness.Config{RC: m.rc, W: 60, H: 12, Prompt: "$ "}
			if H != nil {
				cfg.Hist = []harness.HistSpec{{Kind: "default", Lines: H}}
			}
			if hi == 2 {
				if m.name == "vi" {
					cfg.PriorCalls = [][]harness.Answer{Keys("foo", "\x1b", "k", "\r")}
				} else {
					cfg.PriorCalls = [][]harness.Answer{Keys("foo", "\x10", "\r")}
				}
			}
			if hi == 3 {
				cfg.PriorCalls = [][]harness.Answer{Keys("abc", "\x18\x1dh")}
				initLine = "abc"
			}
			for si2, extraPre := range [][]string{nil, m.longSeed} {
				pre := Keys(append(append([]string{}, m.pre...), extraPre...)...)
				if si2 == 1 && (quick && hi == 1 || hi >= 2) {
					continue
				}
				type reached struct {
					path []Action
				}
				var states []reached
				check := func(sc *Scenario, seed *Seed, path []string, act *Action, job *harness.Job, t *harness.Trace) {
					c.Evaluations++
				}
				seeds := []Seed{{Name: "start", Pre: pre}}
				sc := &Scenario{Name: fmt.Sprintf("%s/H%d/seed%d", m.name, hi, si2), Cfg: cfg, Seeds: seeds, Alphabet: m.alpha, Depth: depth,
					Want: harness.Want{Hash: 2, Obs: 1, SkipScreen: true}, Check: check, MaxStates: 6000}
				// collect states: re-run BFS bookkeeping through a wrapper that records new states
				sc.OnState = func(path []Action) { states = append(states, reached{path: append([]Action{}, path...)}) }
				c.BFS(sc)
				// law probes in every reached state
				type probe struct {
					kind string
					n    int
					st   int
				}
				var jobs []harness.Job
				var probes []probe
				for si, st := range states {
					walked := false
					for _, a := range st.path {
						if a.Name == "previous-history" || a.Name == "next-history" || a.Name == "k" || a.Name == "j" {
							walked = true
						}
					}
					_ = walked
					base := buildAnswers(&sc.Seeds[0], st.path)
					if m.name == "vi" {
						base = append(base, Key("\x1b")) // probes run from command mode
					}
					mk := func(kind string, n int, extra []string) {
						ans := append(append([]harness.Answer{}, base...), Keys(extra...)...)
						jobs = append(jobs, harness.Job{ID: len(jobs), Cfg: cfg, Calls: [][]harness.Answer{ans}, Want: harness.Want{Obs: 2, From: len(pre)}})
						probes = append(probes, probe{kind, n, si})
					}
					var us []string
					for i := 0; i < 24; i++ {
						us = append(us, m.undo)
					}
					mk("undo-until-stable", 0, us)
					for n := 1; n <= 3; n++ {
						var ks []string
						for i := 0; i < n; i++ {
							ks = append(ks, m.undo)
						}
						for i := 0; i < n; i++ {
							ks = append(ks, m.redo)
						}
						mk("undo-redo", n, ks)
					}
					mk("undo-edit-redo", 0, []string{m.undo, m.edit, m.redo})
					mk("undo-edit-undo", 0, []string{m.undo, m.editSaved, m.undo})
					mk("undo-edit-undo", 0, append(append([]string{m.undo}, m.typed...), m.undo))
					// all the way down, then an edit that is not saved as a state of its own, then undo
					var all []string
					for i := 0; i < 10; i++ {
						all = append(all, m.undo)
					}
					mk("undo-all-edit-undo", 10+len(m.typed), append(append(all, m.typed...), m.undo))
				}
				c.Pool.Map(jobs, func(j *harness.Job, t *harness.Trace) {
					p := probes[j.ID]
					st := states[p.st]
					c.Evaluations++
					c.Transitions++
					c.Traces++
					if t.Err != "" {
						c.HarnessError(t.Err)
						return
					}
					walked := false
					base := 0
					for _, a := range st.path {
						base += len(a.Ans)
						if a.Name == "previous-history" || a.Name == "next-history" || a.Name == "k" || a.Name == "j" {
							walked = true
						}
					}
					if m.name == "vi" {
						base++
					}
					fp, what := c07ProbeInit(p.kind, p.n, H, initLine, walked, base, t)
					if fp == "" {
						if strings.HasPrefix(what, "not judged") {
							c.Outcome(strings.SplitN(what, "@", 2)[0])
						} else {
							c.Outcome("ok/" + p.kind)
						}
						return
					}
					c.Outcome(fp)
					if cd, ok := c.cands[fp]; ok {
						cd.count++
						return
					}
					jj := *j
					c.Violate(Witness{Fingerprint: fp, What: fmt.Sprintf("[%s] after %v: %s; keys: %s", sc.Name, pathNames(st.path), what, ShowKeys(j.Calls[0])), Engine: "session", Job: &jj,
						Input: jsonRaw(map[string]any{"Kind": p.kind, "N": p.n, "H": H, "Walk": walked, "Base": base, "Init": initLine})}, func() string {
						f, _ := c07ProbeInit(p.kind, p.n, H, initLine, walked, base, c.Pool.RunOne(&jj))
						return f
					})
				})
				c.Sample(map[string]any{"scenario": sc.Name, "seed_keys": ShowKeys(pre), "alphabet": len(m.alpha), "states": len(states), "probe_executions": len(jobs)})
			}
		}
	}
	c.NontrivialN = c.States
}
