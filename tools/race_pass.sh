#!/bin/sh
# Auxiliary, informational (not a MANIFEST command): free-running executions of the C20 scripts with
# real SIGWINCH bursts and concurrent Printf goroutines under the Go race detector.
cd "$(dirname "$0")/.."
export GOFLAGS=-mod=mod GOPROXY=off
mkdir -p .scratch/race && rm -f .scratch/race/r.*
go build -race -tags verif -o bin/vcheck-race ./cmd/vcheck || exit 2
GORACE="log_path=$(pwd)/.scratch/race/r halt_on_error=0" VERIF_ROOT="$(pwd)/.scratch/race-root" VERIF_WORKERS=8 ./bin/vcheck-race RACEPASS quick 2>&1 | grep -A40 "race pass"
n=$(cat .scratch/race/r.* 2>/dev/null | grep -c "WARNING: DATA RACE")
echo "data race reports: $n"
cat .scratch/race/r.* 2>/dev/null | grep -A3 "^\(Write\|Read\|Previous write\|Previous read\) at" | grep "reeflective/readline" | sed 's/^ *//; s/()$//' | sort | uniq -c | sort -rn | head -25
rm -rf .scratch/race-root
