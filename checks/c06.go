package checks

import (
	"fmt"
	"strings"
	"time"
	"unicode/utf8"

	"verif/internal/harness"
)

// C06 — cursor and selection stay inside the buffer; movements never edit.
//
// The C01 search (same seeds, all-commands alphabet, emacs + vi) with invariants instead
// of crash freedom, evaluated at EVERY wait through the public API, plus the product
// "every reached state x every movement/copy command x numeric argument" for the second
// clause (numeric arguments come from the argument-pending seeds).

// movement / copy commands, by documented name; arg = keys delivered after the command
// (argument key or motion).
var c06Movements = map[string]string{
	"forward-char": "", "backward-char": "", "forward-word": "", "backward-word": "",
	"shell-forward-word": "", "shell-backward-word": "", "beginning-of-line": "", "end-of-line": "",
	"previous-screen-line": "", "next-screen-line": "", "set-mark": "", "exchange-point-and-mark": "",
	"copy-region-as-kill": "", "copy-backward-word": "", "copy-forward-word": "",
	"character-search": "o", "character-search-backward": "o",
	"vi-forward-char": "", "vi-backward-char": "", "vi-forward-word": "", "vi-backward-word": "",
	"vi-forward-bigword": "", "vi-backward-bigword": "", "vi-end-word": "", "vi-end-bigword": "",
	"vi-backward-end-word": "", "vi-backward-end-bigword": "", "vi-end-of-line": "", "vi-first-print": "",
	"vi-back-to-indent": "", "vi-column": "", "vi-match": "", "vi-next-word": "", "vi-prev-word": "",
	"vi-find-next-char": "o", "vi-find-next-char-skip": "o", "vi-find-prev-char": "o", "vi-find-prev-char-skip": "o",
	"vi-char-search": "", "vi-set-mark": "m", "vi-goto-mark": "m",
	"vi-yank-whole-line": "",
	"digit-argument":     "",
}

// vi-yank-to + motion (operator + motion as two chunks)
var c06YankMotions = []string{"w", "b", "e", "$", "0", "h", "l", "W", "B", "E", "^", "%", "iw", "aw", "fo", "y"}

func c06Invariants(o *harness.Obs) (fp, what string) {
	n := utf8.RuneCountInString(o.Line)
	if o.Pos < 0 || o.Pos > n {
		return "cursor-out-of-range", fmt.Sprintf("cursor %d outside buffer %q (len %d)", o.Pos, o.Line, n)
	}
	if o.Kind == "main" && o.Local == "" && (o.Main == "vi-command" || o.Main == "vi-move" || o.Main == "vi") {
		if o.Pos == n && n > 0 && !strings.HasSuffix(o.Line, "\n") {
			return "vi-command-cursor-past-last-character", fmt.Sprintf("vi command mode: cursor %d == len of non-empty buffer %q", o.Pos, o.Line)
		}
	}
	if o.SelOn && !(o.SelB == -1 && o.SelE == -1) {
		if o.SelB < 0 || o.SelB > o.SelE || o.SelE > n {
			return "selection-out-of-range", fmt.Sprintf("active selection [%d,%d) outside buffer %q (len %d)", o.SelB, o.SelE, o.Line, n)
		}
	}
	return "", ""
}

func init() {
	Register(&Check{ID: "C06", Level: "model_checking", Run: runC06, Replay: func(c *Ctx, w *Witness) (string, string) {
		t := c.Pool.RunOne(w.Job)
		fp, what := c06TraceKM(t, w.Expected, w.Observed)
		return fmt.Sprintf("keys: %s\n%s\n%s", ShowKeys(w.Job.Calls[0]), what, jsonString(LastCall(t))), fp
	}})
}

// c06Trace evaluates the invariants on every recorded wait and on return. movement is
// the name of the movement command delivered last ("" if the last action is none).
func c06Trace(t *harness.Trace, movement string) (fp, what string) {
	return c06TraceKM(t, movement, "")
}

// c06TraceKM: km (when not empty) is the main keymap in which the movement command is bound: when the
// path has switched to another main keymap (a data key that is a command in vi command mode, like a),
// the probe sequence is typed text there and nothing is judged about the movement.
func c06TraceKM(t *harness.Trace, movement, km string) (fp, what string) {
	call := LastCall(t)
	for i, w := range call.Waits {
		if w.Obs == nil {
			continue
		}
		if f, wh := c06Invariants(w.Obs); f != "" {
			return f, fmt.Sprintf("at wait %d (%s, main=%s local=%s): %s", i, w.Obs.Kind, w.Obs.Main, w.Obs.Local, wh)
		}
	}
	// "the line returned is the buffer at the moment of acceptance": judged when no
	// local keymap (pending operator, menu, search minibuffer) was active at the last
	// wait - a pending operator legitimately runs after the accepting command.
	if n := len(call.Waits); call.Outcome == "returned" && n > 0 && call.Waits[n-1].Obs != nil && call.Waits[n-1].Obs.Local == "" && call.Waits[n-1].Obs.Kind == "main" {
		if call.Line != call.ShellLine {
			return "returned-line-differs-from-buffer", fmt.Sprintf("Readline returned %q but Shell.Line() is %q", call.Line, call.ShellLine)
		}
	}
	// ... and when a minibuffer or a virtually inserted candidate was active at the last wait, the
	// accepting command re-points the shell at the real input line: what is returned must be what
	// Shell.Line() holds right after the call
	if n := len(call.Waits); call.Outcome == "returned" && call.Err == "" && n > 0 && call.Waits[n-1].Obs != nil && (call.Waits[n-1].Obs.Local == "isearch" || call.Waits[n-1].Obs.Local == "menu-select") {
		// (not for a pending vi operator: it legitimately runs after the accepting command)
		if call.Line != call.ShellLine {
			return "returned-line-differs-from-buffer/" + call.Waits[n-1].Obs.Local, fmt.Sprintf("with local keymap %s active, Readline returned %q but Shell.Line() right after the call is %q", call.Waits[n-1].Obs.Local, call.Line, call.ShellLine)
		}
	}
	if movement != "" && len(call.Waits) >= 2 && call.Outcome == "aborted" {
		first, last := call.Waits[0].Obs, call.Waits[len(call.Waits)-1].Obs
		// When the command did not ask for its argument key (it does not take one in
		// this state), the key delivered as "argument" is ordinary input: judge the
		// state right after the command itself.
		if len(call.Waits) >= 3 && call.Waits[1].Obs != nil && call.Waits[1].Obs.Kind != "arg" && call.Waits[1].Obs.Local == "" {
			last = call.Waits[1].Obs
		}
		// (a command delivered while another one waits for its argument key is that argument, and the
		// rest of its keys are typed text: only commands dispatched by the main loop are judged)
		if first != nil && last != nil && first.Kind == "main" && (km == "" || first.Main == km) && first.Local == "" && last.Local == "" && first.Line != last.Line {
			return "movement-edits-buffer/" + movement, fmt.Sprintf("%s changed the buffer from %q to %q", movement, first.Line, last.Line)
		}
	}
	return "", ""
}

func runC06(c *Ctx) {
	quick := c.Quick()
	if quick {
		c.Deadline = c.Start.Add(6 * time.Minute)
	} else {
		c.Deadline = c.Start.Add(60 * time.Minute)
	}
	c.Rule = "the C01 explicit-state search (state = reflective dump + screen; transition = one key chunk from the all-commands alphabet) with invariants evaluated at every wait through the public API: 0 <= Cursor.Pos() <= len(Line()); on a character in vi command mode; active selection within the buffer; returned line == buffer; and for every reached state x every movement/copy command (by name) x numeric argument {none, 2, 0, -1, 99}: buffer text unchanged. non-trivial = distinct states reached"
	c.Assumptions = []string{"Cursor.Pos()/Selection.Pos() are read on struct copies (the getters clamp their receiver)", "movement clause evaluated in the default configuration only and outside search/completion minibuffers (with history-autosuggest on, forward-char is documented to insert)"}

	comps := &harness.CompSpec{Items: []harness.Comp{{Value: "foo"}, {Value: "foobar"}, {Value: "bar"}}, ByWord: true}
	hist := []harness.HistSpec{{Kind: "default", Lines: []string{"one", "two words"}}}
	base := harness.Config{W: 40, H: 12, Prompt: "$ ", Comps: comps, Hist: hist, Multiline: "paren"}

	type mode struct {
		name, rc, km string
		locals       []string
		seeds        []Seed
	}
	var insSeeds []Seed
	for _, s := range emacsSeeds() {
		switch {
		case strings.HasPrefix(s.Name, "arg"), s.Name == "mark", s.Name == "noninc-search", s.Name == "macro-rec", s.Name == "ctlx-prefix", s.Name == "isearch", s.Name == "isearch-typed", s.Name == "esc-prefix":
			continue
		}
		insSeeds = append(insSeeds, s)
	}
	modes := []mode{
		{"emacs", "", "emacs", []string{"menu-select", "isearch"}, emacsSeeds()},
		{"vi-insert", "set editing-mode vi\n", "vi-insert", []string{"menu-select", "isearch"}, insSeeds},
		{"vi-command", "set editing-mode vi\n", "vi-command", []string{"vi-opp", "visual", "menu-select", "isearch"}, viSeeds()},
	}
	movementsRun := map[string]int64{}
	for _, m := range modes {
		if c.Expired() {
			c.Cap("internal deadline: mode " + m.name + " skipped")
			break
		}
		rcAll, probes := allBoundRC(m.km)
		rc := m.rc + rcAll
		cfg := base
		cfg.RC = rc
		binds := driverBinds(c, rc)
		lists := [][]Action{keymapActions(binds[m.km])}
		for _, l := range m.locals {
			lists = append(lists, keymapActions(binds[l]))
		}
		// movement commands with their argument keys; yank + motions
		var moves []Action
		moveName := map[string]string{}
		for _, p := range probes {
			name := strings.TrimPrefix(p.Name, "cmd:")
			if arg, ok := c06Movements[name]; ok {
				a := Action{Name: "move:" + name, Ans: append([]harness.Answer{}, p.Ans...)}
				if arg != "" {
					a.Ans = append(a.Ans, Key(arg))
				}
				moves = append(moves, a)
				moveName[a.Name] = name
			}
			if m.km == "vi-command" && (name == "vi-yank-whole-line" || name == "vi-yank-to") {
				// the same copies into a named register, replacing ("a) and appending ("A)
				for _, reg := range []string{"a", "A"} {
					mos := []string{""}
					if name == "vi-yank-to" {
						mos = []string{"w", "y", "$"}
					}
					for _, mo := range mos {
						a := Action{Name: "move:\"" + reg + "+" + name + "+" + mo, Ans: append(Keys("\"", reg), p.Ans...)}
						if mo != "" {
							a.Ans = append(a.Ans, Key(mo))
						}
						moves = append(moves, a)
						moveName[a.Name] = "register-" + reg + "+" + name + "+" + mo
					}
				}
			}
			if name == "vi-yank-to" && m.km == "vi-command" {
				for _, mo := range c06YankMotions {
					a := Action{Name: "move:vi-yank-to+" + mo, Ans: append(append([]harness.Answer{}, p.Ans...), Key(mo))}
					moves = append(moves, a)
					moveName[a.Name] = "vi-yank-to+" + mo
				}
			}
		}
		lists = append(lists, moves, probes, dataKeys(false))
		// moves first so that they are not merged away by identical probe chunks
		alpha := mergeActions(append([][]Action{moves}, lists...)...)
		check := func(sc *Scenario, seed *Seed, path []string, act *Action, job *harness.Job, t *harness.Trace) {
			c.Evaluations++
			mv := moveName[act.Name]
			if mv != "" {
				if strings.Contains(seed.Name, "search") || strings.Contains(seed.Name, "menu") || strings.Contains(seed.Name, "wait") || strings.Contains(seed.Name, "prefix") || strings.Contains(seed.Name, "opp-") || strings.Contains(seed.Name, "register") || strings.Contains(seed.Name, "macro") {
					mv = ""
				}
				for _, p := range path {
					if !strings.HasPrefix(p, "move:") && !strings.HasPrefix(p, "key:") {
						mv = ""
					}
				}
				if mv != "" {
					movementsRun[mv]++
				}
			}
			if o := LastCall(t).Outcome; o != "aborted" && o != "returned" {
				// crashes and hangs are C01's subject; recorded, not judged here
				c.Outcome("not-judged(C01)/" + o + "@" + LastCall(t).Site)
				c.Sample(map[string]any{"not_judged": o, "site": LastCall(t).Site, "keys": ShowKeys(job.Calls[0])})
				return
			}
			km := strings.SplitN(sc.Name, "/", 2)[0]
			fp, what := c06TraceKM(t, mv, km)
			if fp == "" {
				c.Outcome("ok/" + LastCall(t).Outcome)
				return
			}
			c.Outcome(fp)
			desc := fmt.Sprintf("[%s] seed %s, path %v, then %s: %s; keys: %s", sc.Name, seed.Name, path, act.Name, what, ShowKeys(job.Calls[0]))
			if cd, ok := c.cands[fp]; ok {
				cd.count++
				return
			}
			jj := *job
			c.Violate(Witness{Fingerprint: fp, What: desc, Engine: "session", Job: &jj, Expected: mv, Observed: km}, func() string {
				f, _ := c06TraceKM(c.Pool.RunOne(&jj), mv, km)
				return f
			})
		}
		depth, maxStates := 1, 0
		sc := &Scenario{Name: m.name + "/all-bound", Cfg: cfg, Seeds: m.seeds, Alphabet: alpha, Depth: depth, Want: harness.Want{Hash: 2, Obs: 2}, Check: check, MaxStates: maxStates}
		before := c.Transitions
		c.BFS(sc)
		c.Sample(map[string]any{"scenario": sc.Name, "seeds": len(m.seeds), "alphabet": len(alpha), "movement_actions": len(moves), "depth": depth, "transitions": c.Transitions - before})
		if !quick {
			// depth 2
			few := m.seeds
			ms := 1500
			sc2 := &Scenario{Name: m.name + "/all-bound/d2", Cfg: cfg, Seeds: few, Alphabet: alpha, Depth: 2, Want: harness.Want{Hash: 2, Obs: 2}, Check: check, MaxStates: ms}
			c.BFS(sc2)
		}
	}
	c.NontrivialN = c.States
	c.Extra = map[string]any{"movement_command_executions": movementsRun}
	c.Bounds = map[string]any{"modes": []string{"emacs", "vi-insert", "vi-command"}, "movement_commands": len(c06Movements) + len(c06YankMotions), "numeric_arguments": "none, 2, 0, -1, 99 / vi 2, 12 (argument-pending seeds)"}
}
