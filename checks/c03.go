package checks

import (
	"fmt"
	"sort"
	"strings"
	"time"

	"verif/internal/harness"
)

// C03 — key sequences run exactly the command they are bound to.
//
// Enumerates bind tables T (sets of bindings over a small key alphabet incl. ESC, a control
// key and meta-encoded keys; overlapping prefixes; macros) installed by REPLACING the
// keymap under test with a fresh map, x all key strings up to a bound delivered one key
// per read, on the real loop with harness-registered probe commands that log every
// invocation together with Keys.Caller(). Compared with a reference model: an
// incremental longest-match tokenizer over T (the statement verbatim).
//
// Three-valued oracle: (a) soundness on every input; (b) completeness (log == model's)
// on inputs the model tokenizes without any dead key; (c) the shorter-binding rule.

type c03Bind struct {
	Seq   string // raw key sequence
	Cmd   string // probe name, or macro body when Macro
	Macro bool
	Meta  bool // store an ESC-x pair meta-encoded (rune x|0x80), as inputrc's \M-x does
}

type c03Table []c03Bind

func (t c03Table) String() string {
	var ps []string
	for _, b := range t {
		k := fmt.Sprintf("%q", b.Seq)
		if b.Meta {
			k += "(meta-encoded)"
		}
		if b.Macro {
			ps = append(ps, fmt.Sprintf("%s->macro %q", k, b.Cmd))
		} else {
			ps = append(ps, fmt.Sprintf("%s->%s", k, b.Cmd))
		}
	}
	return "{" + strings.Join(ps, ", ") + "}"
}

type c03Event struct {
	Cmd    string
	Caller string
}

// c03Model tokenizes input over T. It returns the expected invocation log, whether a dead
// key occurred (some key matched nothing), and, per input position, the number of
// invocations that must have happened once that key has been processed when the model is
// certain of it (-1 = not certain).
func c03Model(t c03Table, input []string) (log []c03Event, dead bool, certain []int) {
	log, dead, certain, _ = c03ModelFull(t, input)
	return
}

// c03ModelFull also returns the number of invocations fixed by the statement when the
// first dead key has been handled (everything after it is unspecified).
func c03ModelFull(t c03Table, input []string) (log []c03Event, dead bool, certain []int, fixed int) {
	return c03ModelOpt(t, input, false)
}

// c03ModelOpt: with local set, a key that matches nothing in the table is a dead key too (a key
// unbound in a local keymap is handed to the main keymap, which is outside the table).
func c03ModelOpt(t c03Table, input []string, local bool) (log []c03Event, dead bool, certain []int, fixed int) {
	fixed = -1
	exact := func(s string) *c03Bind {
		for i := range t {
			if t[i].Seq == s {
				return &t[i]
			}
		}
		return nil
	}
	isPrefix := func(s string) bool {
		for i := range t {
			if len(t[i].Seq) > len(s) && strings.HasPrefix(t[i].Seq, s) {
				return true
			}
		}
		return false
	}
	// the key stream: typed keys, with macro bodies substituted in place
	type key struct {
		k     string
		typed int // index of the typed key that (transitively) produced it
	}
	var stream []key
	for i, k := range input {
		// a typed "key" of the alphabet may be two keys delivered in one read (ESC-a)
		for _, r := range k {
			stream = append(stream, key{string(r), i})
		}
	}
	certain = make([]int, len(input))
	for i := range certain {
		certain[i] = -1
	}
	pending := ""
	var remembered *c03Bind
	steps := 0
	fire := func(b *c03Bind, at int) {
		if b.Macro {
			var ins []key
			for _, r := range b.Cmd {
				ins = append(ins, key{string(r), at})
			}
			stream = append(ins, stream...)
			return
		}
		log = append(log, c03Event{b.Cmd, b.Seq})
	}
	for len(stream) > 0 {
		steps++
		if steps > 200 {
			return nil, true, nil, -99 // self-feeding macro: table excluded
		}
		k := stream[0]
		stream = stream[1:]
		cand := pending + k.k
		ex, pre := exact(cand), isPrefix(cand)
		switch {
		case ex != nil && !pre:
			pending, remembered = "", nil
			fire(ex, k.typed)
		case pre:
			pending = cand
			if ex != nil {
				remembered = ex
			}
		default:
			// cand matches nothing: the statement fixes what runs (the remembered shorter
			// binding, once) but not what becomes of the other keys: dead key
			if remembered != nil && !dead {
				// the shorter binding runs, once, now; the keys typed after its own sequence
				// (the one that ruled the longer bindings out included) were typed none the less:
				// they are matched afresh, after the body of the shorter binding if it is a macro
				rest := cand[len(remembered.Seq):]
				var back []key
				for _, r := range rest {
					back = append(back, key{string(r), k.typed})
				}
				stream = append(back, stream...)
				b := remembered
				pending, remembered = "", nil
				fire(b, k.typed)
				continue
			}
			if pending == "" && !dead && !local {
				// a key that by itself matches no binding and extends none: nothing runs
				// ("keys matching no binding run nothing"); the keys after it are typed as usual
				continue
			}
			first := !dead
			dead = true
			if remembered != nil {
				fire(remembered, k.typed)
			}
			if first {
				fixed = len(log)
				if remembered != nil && remembered.Macro {
					fixed = -2 // a macro fired at the dead key: its expansion is unspecified territory too
				}
			}
			pending, remembered = "", nil
		}
		if len(stream) == 0 || stream[0].typed != k.typed {
			if !dead {
				certain[k.typed] = len(log)
			}
		}
	}
	return log, dead, certain, fixed
}

var c03Keys = map[string][]string{
	"emacs":      {"a", "b", "\x1b", "\x18"},
	"vi-insert":  {"a", "b", "\x18", "\x1ba"},
	"vi-command": {"a", "b", "\x18", "\x1ba"},
}

func c03Sequences(keys []string, maxLen int) []string {
	out := []string{}
	level := []string{""}
	for l := 1; l <= maxLen; l++ {
		var next []string
		for _, p := range level {
			for _, k := range keys {
				next = append(next, p+k)
			}
		}
		out = append(out, next...)
		level = next
	}
	return out
}

func c03Job(id int, km string, t c03Table, input []string) harness.Job {
	rc := ""
	var pre []harness.Answer
	switch km {
	case "vi-insert":
		rc = "set editing-mode vi\n"
	case "vi-command":
		rc = "set editing-mode vi\n"
		pre = Keys("\x1b")
	}
	cfg := harness.Config{RC: rc, W: 60, H: 10, Prompt: "$ ", NoHist: true, Replace: []string{km}}
	names := map[string]bool{}
	for _, b := range t {
		seq := b.Seq
		if b.Meta && len(seq) >= 2 && seq[0] == 0x1b {
			seq = string(rune(seq[1])|0x80) + seq[2:]
		}
		cfg.Binds = append(cfg.Binds, harness.BindSpec{Keymap: km, Seq: seq, Action: b.Cmd, Macro: b.Macro})
		if !b.Macro && !names[b.Cmd] {
			names[b.Cmd] = true
			cfg.Probes = append(cfg.Probes, harness.Probe{Name: b.Cmd, Kind: "log"})
		}
	}
	ans := append(pre, Keys(input...)...)
	return harness.Job{ID: id, Cfg: cfg, Calls: [][]harness.Answer{ans}, Want: harness.Want{Obs: 0, From: len(pre)}}
}

func c03Verdict(km string, t c03Table, input []string, tr *harness.Trace) (fp, what string, nontrivial bool) {
	call := LastCall(tr)
	if call.Outcome != "aborted" {
		return "", "not judged (C01): " + call.Outcome + "@" + call.Site, false
	}
	want, dead, certain, fx := c03ModelFull(t, input)
	if fx == -99 {
		return "", "not judged: self-feeding macro", false
	}
	desc := fmt.Sprintf("keymap=%s table=%s input=%q", km, t, input)
	pre := 0
	if km == "vi-command" {
		pre = 1
	}
	got := call.Log
	var gs, ws []string
	for _, e := range got {
		gs = append(gs, fmt.Sprintf("%s(%q)", e.Name, e.Caller))
	}
	for _, e := range want {
		ws = append(ws, fmt.Sprintf("%s(%q)", e.Cmd, e.Caller))
	}
	nontrivial = len(want) > 0
	// (a) soundness: every invocation is of a bound command, with a caller bound to it
	for _, e := range got {
		ok := false
		for _, b := range t {
			if !b.Macro && b.Cmd == e.Name && b.Seq == e.Caller {
				ok = true
			}
		}
		if !ok {
			boundCmd := false
			for _, b := range t {
				if !b.Macro && b.Cmd == e.Name {
					boundCmd = true
				}
			}
			if !boundCmd {
				return "runs-unbound-command", fmt.Sprintf("%s: %s ran, which is bound to nothing", desc, e.Name), true
			}
			return "command-run-with-keys-of-another-sequence", fmt.Sprintf("%s: %s ran with caller keys %q, which are not a sequence bound to it (log: %v)", desc, e.Name, e.Caller, gs), true
		}
	}
	// no command while the keys so far are only a proper prefix / exactly-once timing (c)
	for i := range input {
		if certain[i] < 0 {
			continue
		}
		// invocations that happened before the wait following typed key i
		n := 0
		for _, e := range got {
			if e.Wait <= pre+i+1 {
				n++
			}
		}
		if n != certain[i] {
			kind := "command-runs-too-early-or-twice"
			if n < certain[i] {
				kind = "bound-sequence-does-not-run-when-its-last-key-arrives"
			}
			return kind, fmt.Sprintf("%s: after key #%d (%q) %d invocation(s) had happened, the model says %d (log: %v, model: %v)", desc, i+1, input[i], n, certain[i], gs, ws), true
		}
	}
	// (b) completeness on inputs without dead keys
	if !dead {
		if strings.Join(gs, " ") != strings.Join(ws, " ") {
			return "invocations-differ-from-model", fmt.Sprintf("%s: ran %v, the model says %v", desc, gs, ws), true
		}
		return "", "", nontrivial
	}
	// (c) with dead keys: the model's invocations up to the first dead key are a prefix of what ran,
	// and nothing bound to a sequence that was not typed contiguously may run (covered by (a) + order)
	_, _, _, fixed := c03ModelFull(t, input)
	for i := 0; i < fixed && i < len(want); i++ {
		if i >= len(got) || got[i].Name != want[i].Cmd {
			// up to and including the first dead key the statement fixes what runs: the
			// earlier complete sequences and the remembered shorter binding, once
			return "shorter-binding-does-not-run", fmt.Sprintf("%s: ran %v, the model requires %v to have run by the time the first key matching nothing is handled", desc, gs, ws[:fixed]), true
		}
	}
	return "", "", nontrivial
}

func init() {
	Register(&Check{ID: "C03", Level: "model_checking", Run: runC03, Replay: func(c *Ctx, w *Witness) (string, string) {
		var in struct {
			KM    string
			Table c03Table
			Input []string
			Local string
		}
		jsonUnmarshal(w.Input, &in)
		if in.Local != "" {
			cs := c03LocalCase{in.Local, in.Table, in.Input}
			j := c03LocalJob(0, cs)
			t := c.Pool.RunOne(&j)
			fp, what, _ := c03LocalVerdict(cs, t)
			return fmt.Sprintf("%s\nlog: %s", what, jsonString(LastCall(t).Log)), fp
		}
		j := c03Job(0, in.KM, in.Table, in.Input)
		t := c.Pool.RunOne(&j)
		fp, what, _ := c03Verdict(in.KM, in.Table, in.Input, t)
		return fmt.Sprintf("%s\nlog: %s", what, jsonString(LastCall(t).Log)), fp
	}})
}

func runC03(c *Ctx) {
	quick := c.Quick()
	maxSeq, maxIn := 2, 3
	if quick {
		c.Deadline = c.Start.Add(6 * time.Minute)
	} else {
		maxIn = 4
		c.Deadline = c.Start.Add(60 * time.Minute)
	}
	c.Rule = fmt.Sprintf("all bind tables of 1..2 bindings (thorough: + 3-binding chains) with sequences of length <= %d over a 4-key alphabet per keymap (a, b, ESC or glued ESC-a, C-x), each bound to a distinct logging probe command or (one-bind and two-bind tables) a macro with a body of <= 2 keys, ESC-x pairs also stored meta-encoded; + nested-macro tables (a macro whose body runs another macro) over four plain keys; installed by replacing the keymap (emacs, vi-insert, vi-command) with a fresh map; x all key strings of length <= %d, one key per read; invocation log (command, Keys.Caller(), wait index) compared with the reference longest-match tokenizer. non-trivial = distinct (table, input) pairs for which the model expects at least one invocation", maxSeq, maxIn)
	c.Assumptions = []string{"what becomes of keys consumed while a longer binding is being ruled out is not fixed by the statement: on inputs with such dead keys only soundness and the shorter-binding rule are judged", "in vi keymaps a lone ESC is not in the alphabet (timing-dependent by the statement); ESC-a is delivered glued", "local keymaps are covered by c03local (see evidence key local_keymaps)"}
	type cse struct {
		km    string
		t     c03Table
		input []string
	}
	var cases []cse
	ntables := 0
	selfFeeding := 0
	for _, km := range []string{"emacs", "vi-insert", "vi-command"} {
		keys := c03Keys[km]
		seqs := c03Sequences(keys, maxSeq)
		inputs := [][]string{}
		var rec func(p []string, d int)
		rec = func(p []string, d int) {
			if len(p) > 0 {
				inputs = append(inputs, append([]string{}, p...))
			}
			if d == maxIn {
				return
			}
			for _, k := range keys {
				rec(append(p, k), d+1)
			}
		}
		rec(nil, 0)
		var tables []c03Table
		// one-bind tables: command, and macros with every body of <= 2 keys
		bodies := c03Sequences([]string{"a", "b", "\x18"}, 2)
		for _, s := range seqs {
			tables = append(tables, c03Table{{Seq: s, Cmd: "p1"}})
			if len(s) >= 2 && s[0] == 0x1b {
				tables = append(tables, c03Table{{Seq: s, Cmd: "p1", Meta: true}})
			}
			for _, body := range bodies {
				tables = append(tables, c03Table{{Seq: s, Cmd: body, Macro: true}})
			}
		}
		// two-bind tables: two commands; and command + macro
		for i, s1 := range seqs {
			for j, s2 := range seqs {
				if j <= i {
					continue
				}
				tables = append(tables, c03Table{{Seq: s1, Cmd: "p1"}, {Seq: s2, Cmd: "p2"}})
				if (len(s1) >= 2 && s1[0] == 0x1b) || (len(s2) >= 2 && s2[0] == 0x1b) {
					tables = append(tables, c03Table{{Seq: s1, Cmd: "p1", Meta: true}, {Seq: s2, Cmd: "p2", Meta: true}})
				}
				if !quick || (len(s1) == 1 || len(s2) == 1) {
					tables = append(tables, c03Table{{Seq: s1, Cmd: "p1"}, {Seq: s2, Cmd: s1[:1] + "a", Macro: true}})
					tables = append(tables, c03Table{{Seq: s1, Cmd: "b", Macro: true}, {Seq: s2, Cmd: "p2"}})
				}
			}
		}
		if !quick {
			// chain family with |seq| = 3: s, s.k, s.k.k' bound in every combination
			for _, s := range keys {
				for _, k := range keys {
					for _, k2 := range keys {
						chain := []c03Bind{{Seq: s, Cmd: "p1"}, {Seq: s + k, Cmd: "p2"}, {Seq: s + k + k2, Cmd: "p3"}}
						for mask := 1; mask < 8; mask++ {
							var t c03Table
							for b := 0; b < 3; b++ {
								if mask&(1<<b) != 0 {
									t = append(t, chain[b])
								}
							}
							tables = append(tables, t)
						}
					}
				}
			}
		}
		// nested macros (a macro whose body contains a key bound to another macro), over four plain keys:
		// "behaves as if the macro's keys had been typed" holds for the inner macro too - its keys come
		// where its key stood, before the rest of the outer body
		var nestedTables []c03Table
		for _, outer := range []string{"bc", "cb", "bcb"} {
			for _, inner := range []string{"d", "dc", "cd"} {
				nestedTables = append(nestedTables, c03Table{{Seq: "a", Cmd: outer, Macro: true}, {Seq: "b", Cmd: inner, Macro: true}, {Seq: "c", Cmd: "p1"}, {Seq: "d", Cmd: "p2"}})
			}
		}
		nestedInputs := [][]string{}
		for _, k1 := range []string{"a", "b", "c", "d"} {
			nestedInputs = append(nestedInputs, []string{k1})
			for _, k2 := range []string{"a", "b", "c", "d"} {
				nestedInputs = append(nestedInputs, []string{k1, k2})
			}
		}
		for _, t := range nestedTables {
			for _, in := range nestedInputs {
				cases = append(cases, cse{km, t, in})
			}
		}
		ntables += len(nestedTables)
		// a macro whose body contains a key of its own sequence can feed itself (directly or
		// through the re-dispatch of a ruling-out key): a configuration error by construction,
		// never terminating; such tables are not part of the space
		kept := tables[:0]
		for _, t := range tables {
			ok := true
			for _, b := range t {
				if b.Macro && strings.ContainsAny(b.Cmd, b.Seq) {
					ok = false
				}
			}
			if ok {
				kept = append(kept, t)
			}
		}
		tables = kept
		ntables += len(tables)
		for _, t := range tables {
			for _, in := range inputs {
				// a macro that feeds itself never terminates by construction: not executed
				if _, _, _, fixed := c03ModelFull(t, in); fixed == -99 {
					selfFeeding++
					continue
				}
				cases = append(cases, cse{km, t, in})
			}
		}
	}
	c.Bounds = map[string]any{"excluded_self_feeding_macro_cases": selfFeeding, "tables": ntables, "max_seq_len": maxSeq, "max_input_len": maxIn, "keymaps": []string{"emacs", "vi-insert", "vi-command"}}
	next := 0
	gen := func() (harness.Job, bool) {
		if next >= len(cases) || (next%8192 == 0 && c.Expired()) {
			return harness.Job{}, false
		}
		cs := cases[next]
		j := c03Job(next, cs.km, cs.t, cs.input)
		next++
		return j, true
	}
	best := map[string]int{}
	c.Pool.Stream(gen, func(j *harness.Job, t *harness.Trace) {
		cs := cases[j.ID]
		c.Evaluations++
		c.Traces++
		c.Transitions += int64(len(cs.input))
		if t.Err != "" {
			c.HarnessError(t.Err)
			return
		}
		fp, what, non := c03Verdict(cs.km, cs.t, cs.input, t)
		if non {
			c.NontrivialN++
		}
		if c.Evaluations%20011 == 7 {
			c.Sample(map[string]any{"keymap": cs.km, "table": cs.t.String(), "input": cs.input, "log": LastCall(t).Log})
		}
		if fp == "" {
			if strings.HasPrefix(what, "not judged") {
				c.Outcome(strings.SplitN(what, "@", 2)[0])
				if strings.Contains(what, "hung") && len(c.Samples) < 8 {
					c.Sample(map[string]any{"not_judged": what, "keymap": cs.km, "table": cs.t.String(), "input": cs.input})
				}
			} else {
				_, dead, _ := c03Model(cs.t, cs.input)
				if dead {
					c.Outcome("ok/sound (input has dead keys)")
				} else {
					c.Outcome("ok/log equals model")
				}
			}
			return
		}
		c.Outcome(fp)
		size := len(cs.t)*100 + len(cs.input)
		if cd, ok := c.cands[fp]; ok {
			cd.count++
			if size < best[fp] {
				// keep the smallest witness
				best[fp] = size
				jj := *j
				cd.w.What, cd.w.Job = what, &jj
				cd.w.Input = jsonRaw(map[string]any{"KM": cs.km, "Table": cs.t, "Input": cs.input})
				cd.confirm = func() string {
					f, _, _ := c03Verdict(cs.km, cs.t, cs.input, c.Pool.RunOne(&jj))
					return f
				}
			}
			return
		}
		best[fp] = size
		jj := *j
		c.Violate(Witness{Fingerprint: fp, What: what, Engine: "session", Job: &jj,
			Input: jsonRaw(map[string]any{"KM": cs.km, "Table": cs.t, "Input": cs.input})}, func() string {
			f, _, _ := c03Verdict(cs.km, cs.t, cs.input, c.Pool.RunOne(&jj))
			return f
		})
	})
	if next < len(cases) {
		c.Cap(fmt.Sprintf("internal deadline: %d of %d (table, input) cases run", next, len(cases)))
	}
	// states of the model: distinct (table, pending prefix) pairs are not counted; report tables x inputs
	c.States = int64(ntables)
	var ks []string
	for k := range c03Keys {
		ks = append(ks, k)
	}
	sort.Strings(ks)
	c.Extra = map[string]any{"model": "incremental longest-match tokenizer (exact match without longer candidate runs; proper prefix waits; failed extension runs the remembered shorter binding once)", "traces_note": "every model-predicted trace was executed on the implementation and compared (traces_validated_against_impl = executions)"}
	runC03Local(c)
}
