package checks

import (
	"fmt"
	"strings"
	"time"

	"verif/internal/harness"
	"verif/internal/vt"
)

// C11 — the terminal is restored on every way out of Readline.
//
// Full product: exit path (accept variants, multi-line accept, insert-comment, abort /
// interrupt, EOF on an empty line, vi-eof-maybe, edit-and-execute with a failing / working
// editor, autosuggest-execute, stdin EOF, a panic inside a user-registered command) x mode
// (emacs, vi-insert, vi-command, visual) x buffer shape (empty, short, exactly the width,
// wrapped, two rows and more, multi-line, with a hint, with a completion menu, with an
// incremental search open) x cursor (start, middle, end) x width x prompt-transient.
// Oracle on every execution in which the call returned (or panicked): (1) the termios
// settings of the tty are exactly those before the call; (2) the terminal cursor is at
// column 0 of a row strictly below every row that held input, and that row is blank;
// (3) the last cursor style sequence seen is CSI 0 SP q (user default).

type c11Exit struct {
	name   string
	cmd    string   // command name (through the all-bound inputrc), or ""
	keys   []string // literal keys instead
	fault  string
	editor string
	multi  string
	hist   bool
}

var c11Exits = []c11Exit{
	{name: "accept-line", cmd: "accept-line"},
	{name: "accept-and-hold", cmd: "accept-and-hold"},
	{name: "operate-and-get-next", cmd: "operate-and-get-next", hist: true},
	{name: "accept-and-infer-next-history", cmd: "accept-and-infer-next-history", hist: true},
	{name: "multi-line-accept", keys: []string{"\r", "z", "\r"}, multi: "first"},
	{name: "insert-comment", cmd: "insert-comment"},
	{name: "interrupt(C-c)", keys: []string{"\x03"}},
	{name: "abort", cmd: "abort"},
	{name: "end-of-file", cmd: "end-of-file"},
	{name: "vi-eof-maybe", cmd: "vi-eof-maybe"},
	{name: "edit-and-execute(editor fails)+Enter", cmd: "edit-and-execute-command", keys: []string{"\r"}},
	{name: "edit-and-execute(editor keeps)", cmd: "edit-and-execute-command", editor: "keep"},
	{name: "edit-and-execute(editor appends)", cmd: "edit-and-execute-command", editor: "append"},
	{name: "autosuggest-execute", cmd: "autosuggest-execute", hist: true},
	{name: "stdin-EOF", fault: "eof"},
	{name: "stdin-error", fault: "eio"},
	{name: "panic-in-user-command", cmd: "verif-panic"},
}

type c11Shape struct {
	name string
	text func(w int) string
	pre  []string // keys after the text (open a menu, a search, a numeric argument)
	comp bool
	hist bool
	auto bool // history-autosuggest on, with an entry whose suggested remainder wraps onto later rows
}

var c11Shapes = []c11Shape{
	{name: "empty", text: func(w int) string { return "" }},
	{name: "short", text: func(w int) string { return "ab" }},
	{name: "exactly-width", text: func(w int) string { return strings.Repeat("x", w-2) }},
	{name: "wrapped", text: func(w int) string { return strings.Repeat("x", w+1) }},
	{name: "two-rows-and-more", text: func(w int) string { return strings.Repeat("y", 2*w+1-2) }},
	{name: "multi-line", text: func(w int) string { return "(ab\rcd" }},
	{name: "with-hint", text: func(w int) string { return "ab" }, pre: []string{"\x1b2"}},
	{name: "menu-open", text: func(w int) string { return "fo" }, pre: []string{"\t"}, comp: true},
	{name: "isearch-open", text: func(w int) string { return "ab" }, pre: []string{"\x12", "o"}, hist: true},
	{name: "autosuggestion-wrapping", text: func(w int) string { return "ab" }, auto: true},
}

type c11Case struct {
	exit, shape int
	mode        string
	cursor      string
	w           int
	transient   bool
	ttyChanged  bool // a first call ("q" Enter) runs under the baseline tty settings, the settings then change, the case is the second call
}

func (cs c11Case) String() string {
	s := fmt.Sprintf("exit=%s mode=%s shape=%s cursor=%s width=%d prompt-transient=%v", c11Exits[cs.exit].name, cs.mode, c11Shapes[cs.shape].name, cs.cursor, cs.w, cs.transient)
	if cs.ttyChanged {
		s += " second-call-after-the-tty-settings-changed"
	}
	return s
}

func c11Job(id int, cs c11Case, rcByKM map[string]string, keysByKM map[string]map[string]string) harness.Job {
	ex, sh := c11Exits[cs.exit], c11Shapes[cs.shape]
	km := map[string]string{"emacs": "emacs", "vi-insert": "vi-insert", "vi-command": "vi-command", "visual": "vi-command", "operator-pending": "vi-command"}[cs.mode]
	rc := rcByKM[km]
	if cs.transient {
		rc += "set prompt-transient on\n"
	}
	if ex.name == "autosuggest-execute" || sh.auto {
		rc += "set history-autosuggest on\n"
	}
	cfg := harness.Config{RC: rc, W: cs.w, H: 24, Prompt: "> ", Multiline: "paren", Editor: ex.editor,
		Probes: []harness.Probe{{Name: "verif-panic", Kind: "panic"}}}
	if ex.multi != "" {
		cfg.Multiline = ex.multi
	}
	if cs.transient {
		cfg.Transient = "% "
	}
	if sh.comp {
		cfg.Comps = &harness.CompSpec{Items: []harness.Comp{{Value: "foo"}, {Value: "fob"}, {Value: "fox", Desc: "d"}}, ByWord: true}
	}
	cfg.Hist = []harness.HistSpec{{Kind: "default", Lines: []string{"one", "ab two", "foo bar"}}}
	if sh.auto {
		cfg.Hist = []harness.HistSpec{{Kind: "default", Lines: []string{"one", "ab " + strings.Repeat("x", 2*cs.w)}}}
	}
	var ans []harness.Answer
	text := sh.text(cs.w)
	for _, part := range strings.SplitAfter(text, "\r") {
		if part != "" {
			if strings.HasSuffix(part, "\r") {
				if len(part) > 1 {
					ans = append(ans, Key(part[:len(part)-1]))
				}
				ans = append(ans, Key("\r"))
			} else {
				ans = append(ans, Key(part))
			}
		}
	}
	n := len([]rune(strings.ReplaceAll(text, "\r", "\n")))
	switch cs.mode {
	case "emacs", "vi-insert":
		switch cs.cursor {
		case "start":
			for i := 0; i < n; i++ {
				ans = append(ans, Key("\x02"))
			}
		case "middle":
			for i := 0; i < n/2; i++ {
				ans = append(ans, Key("\x02"))
			}
		}
	case "vi-command", "visual", "operator-pending":
		ans = append(ans, Key("\x1b"))
		switch cs.cursor {
		case "start":
			for i := 0; i < n; i++ {
				ans = append(ans, Key("h"))
			}
		case "middle":
			for i := 0; i < n/2; i++ {
				ans = append(ans, Key("h"))
			}
		}
		if cs.mode == "visual" {
			ans = append(ans, Key("v"))
		}
		if cs.mode == "operator-pending" {
			ans = append(ans, Key("d")) // the exit key arrives while an operator waits for its motion
		}
	}
	ans = append(ans, Keys(sh.pre...)...)
	if ex.cmd != "" {
		ans = append(ans, Key(keysByKM[km][ex.cmd]))
	}
	ans = append(ans, Keys(ex.keys...)...)
	if ex.fault != "" {
		ans = append(ans, harness.Answer{Fault: ex.fault})
	}
	if cs.ttyChanged {
		cfg.TtyAlt = []bool{false, true}
		return harness.Job{ID: id, Cfg: cfg, Calls: [][]harness.Answer{Keys("q", "\r"), ans}, Want: harness.Want{Obs: 2, Screen: 2}}
	}
	return harness.Job{ID: id, Cfg: cfg, Calls: [][]harness.Answer{ans}, Want: harness.Want{Obs: 2, Screen: 2, From: len(ans) - 1 - len(ex.keys)}}
}

func c11Verdict(cs c11Case, t *harness.Trace) (fp, what string, judged bool) {
	call := LastCall(t)
	if call.Outcome != "returned" && call.Outcome != "panic" {
		return "", "not an exit in this state (" + call.Outcome + ")", false
	}
	if call.Outcome == "panic" && !strings.Contains(call.Err, "verif: probe panic") {
		return "", "not judged (C01): panic@" + call.Site, false
	}
	path := "returned"
	if call.Outcome == "panic" {
		path = "panic"
	}
	cls := c11Exits[cs.exit].name
	for ci := range t.Calls {
		if o := t.Calls[ci].Outcome; (o == "returned" || o == "panic") && !t.Calls[ci].TermiosSame {
			return "termios-not-restored/" + path, fmt.Sprintf("%s: the terminal mode settings after call %d differ from those before it", cs, ci+1), true
		}
	}
	if call.After == nil || call.After.Screen == nil {
		return "", "not judged: no final screen", false
	}
	after := call.After.Screen
	if len(after.Unknown) > 0 {
		return "", "not judged: emulator does not model " + strings.Join(after.Unknown, ","), false
	}
	if after.CursorStyle != 0 {
		return "cursor-style-not-reset/" + path, fmt.Sprintf("%s: the last cursor style sequence seen is CSI %d SP q, not CSI 0 SP q", cs, after.CursorStyle), true
	}
	// rows that held input: at every recorded wait, anchored on the cursor
	maxRow := -1 << 30
	lastObserved := ""
	for _, w := range call.Waits {
		if w.Obs == nil || w.Screen == nil {
			continue
		}
		line := w.Obs.Line
		lastObserved = line
		pos := w.Obs.Pos
		if w.Obs.Local == "isearch" {
			continue // Line() is the search minibuffer there; the input line rows are counted at other waits
		}
		cells, cr, _, _ := vt.Layout(w.Screen.W, 2, 2, []rune(line), pos, 5)
		last := 0
		for _, g := range cells {
			if g.Row > last {
				last = g.Row
			}
		}
		if n := strings.Count(line, "\n"); n > last {
			last = n
		}
		r0 := w.Screen.CY - cr
		// account for scrolling between this wait and the end
		row := r0 + last - (after.Scrolled - w.Screen.Scrolled)
		if row > maxRow {
			maxRow = row
		}
	}
	if maxRow == -1<<30 {
		return "", "not judged: no observation before the exit", false
	}
	if after.PendingWrap || after.CX != 0 {
		return "cursor-not-at-start-of-a-row/" + path, fmt.Sprintf("%s: after the call the terminal cursor is at column %d (row %d), not at the start of a row; screen: %q", cs, after.CX, after.CY, after.Lines), true
	}
	if after.CY <= maxRow {
		return "cursor-not-below-the-input/" + path + "/" + c11ShapeClass(cs), fmt.Sprintf("%s: after the call the terminal cursor is on row %d, but the input occupied rows up to %d; screen: %q", cs, after.CY, maxRow, after.Lines), true
	}
	if !cs.transient && (call.Outcome == "panic" || call.Line == lastObserved) {
		// (when the exit itself changed the line - editor, autosuggest-execute - its rows were never observed)
		// "fresh": nothing that is neither input nor output may be left between the input and the
		// cursor (the hint, the menu and the ghost text of an autosuggestion are erased on the way out);
		// a transient prompt legitimately reprints the line there
		for r := maxRow + 1; r < after.CY; r++ {
			if r >= 0 && after.Line(r) != "" && !(strings.HasPrefix(cls, "interrupt") && (after.Line(r) == "^C" || after.Line(r) == "C")) { // the echo of the interrupt character is output
				return "stale-text-between-input-and-cursor/" + path + "/" + c11ShapeClass(cs), fmt.Sprintf("%s: after the call row %d, between the input (rows up to %d) and the cursor (row %d), still shows %q; screen: %q", cs, r, maxRow, after.CY, after.Line(r), after.Lines), true
			}
		}
	}
	if after.Line(after.CY) != "" {
		return "row-under-cursor-not-fresh/" + path, fmt.Sprintf("%s: after the call the cursor row %d shows %q", cs, after.CY, after.Line(after.CY)), true
	}
	_ = cls
	return "", "", true
}

func c11ShapeClass(cs c11Case) string {
	return c11Shapes[cs.shape].name
}

func init() {
	Register(&Check{ID: "C11", Level: "exploration", Run: runC11, Replay: func(c *Ctx, w *Witness) (string, string) {
		var in struct {
			Exit, Shape int
			Mode, Cur   string
			W           int
			Tr          bool
			Tty         bool
		}
		jsonUnmarshal(w.Input, &in)
		cs := c11Case{in.Exit, in.Shape, in.Mode, in.Cur, in.W, in.Tr, in.Tty}
		t := c.Pool.RunOne(w.Job)
		fp, what, _ := c11Verdict(cs, t)
		call := LastCall(t)
		var sb strings.Builder
		if call.After != nil && call.After.Screen != nil {
			for y, l := range call.After.Screen.Lines {
				fmt.Fprintf(&sb, "    |%s|%d\n", l, y)
			}
			fmt.Fprintf(&sb, "    cursor=(%d,%d) style=%d\n", call.After.Screen.CY, call.After.Screen.CX, call.After.Screen.CursorStyle)
		}
		return fmt.Sprintf("keys: %s\noutcome: %s %q err=%q termios-same=%v\n%s%s", ShowKeys(w.Job.Calls[0]), call.Outcome, call.Line, call.Err, call.TermiosSame, sb.String(), what), fp
	}})
}

func runC11(c *Ctx) {
	quick := c.Quick()
	if quick {
		c.Deadline = c.Start.Add(8 * time.Minute)
	} else {
		c.Deadline = c.Start.Add(60 * time.Minute)
	}
	rcByKM := map[string]string{}
	keysByKM := map[string]map[string]string{}
	for _, km := range []string{"emacs", "vi-insert", "vi-command"} {
		rc, acts := allBoundRC(km)
		if km != "emacs" {
			rc = "set editing-mode vi\n" + rc
		}
		rc += "\"\\C-x\\C-]zp\": verif-panic\n"
		rcByKM[km] = rc
		keysByKM[km] = map[string]string{"verif-panic": "\x18\x1dzp"}
		for _, a := range acts {
			keysByKM[km][strings.TrimPrefix(a.Name, "cmd:")] = string(a.Ans[0].Bytes)
		}
	}
	var cases []c11Case
	cursors := []string{"end", "middle", "start"}
	for ei := range c11Exits {
		for _, mode := range []string{"emacs", "vi-insert", "vi-command", "visual", "operator-pending"} {
			for si := range c11Shapes {
				for _, cur := range cursors {
					for _, w := range []int{20, 8} {
						for _, tr := range []bool{false, true} {
							cases = append(cases, c11Case{ei, si, mode, cur, w, tr, false})
						}
					}
				}
			}
		}
	}
	// the same exits as the second call of a process, after the application's tty settings changed
	for ei := range c11Exits {
		for _, mode := range []string{"emacs", "vi-command"} {
			for _, si := range []int{1, 3} {
				cases = append(cases, c11Case{ei, si, mode, "end", 20, false, true})
			}
		}
	}
	var en, sn []string
	for _, e := range c11Exits {
		en = append(en, e.name)
	}
	for _, s := range c11Shapes {
		sn = append(sn, s.name)
	}
	c.Rule = fmt.Sprintf("full product of %d exit paths %v x {emacs, vi-insert, vi-command, visual} x %d buffer shapes %v x cursor %v x widths {20, 8} x prompt-transient {off, on}; judged whenever the call returned or the user command panicked. non-trivial = distinct cases in which the call actually ended", len(c11Exits), en, len(c11Shapes), sn, cursors)
	c.Bounds = map[string]any{"cases": len(cases)}
	c.Assumptions = []string{"rows that held input are computed with the harness' reference renderer, anchored on the terminal cursor at each wait, adjusted for scrolling", "termios compared field by field on the pty slave"}
	next := 0
	gen := func() (harness.Job, bool) {
		if next >= len(cases) || (next%4096 == 0 && c.Expired()) {
			return harness.Job{}, false
		}
		j := c11Job(next, cases[next], rcByKM, keysByKM)
		next++
		return j, true
	}
	c.Pool.Stream(gen, func(j *harness.Job, t *harness.Trace) {
		cs := cases[j.ID]
		c.Evaluations++
		if t.Err != "" {
			c.HarnessError(t.Err)
			return
		}
		fp, what, judged := c11Verdict(cs, t)
		if judged {
			c.NontrivialN++
		}
		if c.Evaluations%1501 == 7 {
			call := LastCall(t)
			smp := map[string]any{"case": cs.String(), "outcome": call.Outcome, "returned": call.Line, "err": call.Err}
			if call.After != nil && call.After.Screen != nil {
				smp["final_screen"] = call.After.Screen.Lines
				smp["final_cursor"] = []int{call.After.Screen.CY, call.After.Screen.CX}
			}
			c.Sample(smp)
		}
		if fp == "" {
			switch {
			case strings.HasPrefix(what, "not judged"):
				c.Outcome(strings.SplitN(what, "@", 2)[0])
			case !judged:
				c.Outcome("not-an-exit-in-this-state")
			default:
				c.Outcome("ok/" + LastCall(t).Outcome)
			}
			return
		}
		c.Outcome(fp)
		if cd, ok := c.cands[fp]; ok {
			cd.count++
			return
		}
		jj := *j
		c.Violate(Witness{Fingerprint: fp, What: what, Engine: "session", Job: &jj,
			Input: jsonRaw(map[string]any{"Exit": cs.exit, "Shape": cs.shape, "Mode": cs.mode, "Cur": cs.cursor, "W": cs.w, "Tr": cs.transient, "Tty": cs.ttyChanged})}, func() string {
			f, _, _ := c11Verdict(cs, c.Pool.RunOne(&jj))
			return f
		})
	})
	if next < len(cases) {
		c.Cap(fmt.Sprintf("internal deadline: %d of %d cases run", next, len(cases)))
	}
}
