package checks

import (
	"fmt"
	"strings"
	"unicode/utf8"

	"verif/internal/harness"
)

// C02 — what the user types is what Readline returns.
//
// Enumerates every string of length <= L over a rune alphabet (ASCII, Latin-1, BMP incl.
// CJK wide, combining, astral) x {emacs, vi-insert} x meta settings x delivery
// {one chunk, one rune per read}, each followed by Enter, on the real Readline loop.
// Oracle: err == nil and returned line == typed string (ASCII under every setting;
// non-ASCII under convert-meta off, as the statement scopes it); at intermediate waits
// the buffer is a prefix of the typed text.

var c02Alphabet = []string{"a", "Z", "0", "~", " ", "\"", "\\", "(", "!", "é", "ÿ", " ", "λ", "中", "́", "😀"}

type metaSetting struct{ name, rc string }

var c02Meta = []metaSetting{
	{"default", ""},
	{"convert-meta-off", "set convert-meta off\n"},
	{"utf8-usual", "set convert-meta off\nset input-meta on\nset output-meta on\n"},
}

func modeRC(mode string) string {
	if mode == "vi" || mode == "vi-insert" {
		return "set editing-mode vi\n"
	}
	return ""
}

func isASCII(s string) bool {
	for i := 0; i < len(s); i++ {
		if s[i] >= 0x80 {
			return false
		}
	}
	return true
}

func c02Strings(alpha []string, L int) []string {
	out := []string{""}
	level := []string{""}
	for l := 1; l <= L; l++ {
		var next []string
		for _, p := range level {
			for _, a := range alpha {
				next = append(next, p+a)
			}
		}
		out = append(out, next...)
		level = next
	}
	return out
}

// c02Contexts: the state and options around the typing. The statement is about printable text and
// the accept key only, so it has to hold whatever optional feature watches the typing (suggestions,
// automatic completion, bracket matching, highlighting, a mode indicator), on a terminal narrower
// than the text, and in a later call on a Shell whose earlier call ended in any state.
var c02Contexts = []string{"plain", "autosuggest", "autocomplete", "decorations", "narrow", "after-accepted-call", "after-interrupted-call", "after-vi-command-call", "after-pending-states", "after-completed-call"}

func c02Context(cfg *harness.Config, ctx, mode string) {
	switch ctx {
	case "autosuggest":
		cfg.RC += "set history-autosuggest on\n"
		cfg.Hist = []harness.HistSpec{{Kind: "default", Lines: []string{"0 zero", "ab", "a b", "Z~x", "é中", "中a", "😀😀 x", "\"q\"", "aa", "a"}}}
	case "autocomplete":
		cfg.RC += "set autocomplete on\n"
		cfg.Comps = &harness.CompSpec{ByWord: true, Items: []harness.Comp{{Value: "ab"}, {Value: "aZ"}, {Value: "a"}, {Value: "Zeta"}, {Value: "0x", Desc: "hex"}, {Value: "éa"}, {Value: "中文"}, {Value: "~user"}, {Value: "!bang"}, {Value: "(paren"}}}
	case "decorations":
		cfg.RC += "set blink-matching-paren on\nset show-mode-in-prompt on\nset colored-completion-prefix on\n"
		cfg.Highlight = true
		cfg.RPrompt = "R"
		cfg.Prompt = "top\n$ "
	case "narrow":
		cfg.W, cfg.H = 4, 5
		cfg.PreOutput = "o\r\n"
	case "after-accepted-call":
		cfg.PriorCalls = [][]harness.Answer{Keys("q", "w", "\r")}
	case "after-interrupted-call":
		if mode == "emacs" {
			cfg.PriorCalls = [][]harness.Answer{Keys("q", "\x1b2", "\x03")}
		} else {
			cfg.PriorCalls = [][]harness.Answer{Keys("q", "\x03")}
		}
	case "after-vi-command-call":
		// the earlier call went through (vi) command mode and back / (emacs) a lone ESC, then accepted
		if mode == "emacs" {
			cfg.PriorCalls = [][]harness.Answer{Keys("q", "w", "\x1b", "b", "\r")}
		} else {
			cfg.PriorCalls = [][]harness.Answer{Keys("q", "w", "\x1b", "0", "i", "\r")}
		}
	case "after-completed-call":
		// the earlier call ended right after a completion whose candidate carries a suffix matcher
		// (a directory-like value: the trailing slash is removed when a blank or a slash is typed next)
		cfg.Comps = &harness.CompSpec{ByWord: true, NoSpace: "/", Items: []harness.Comp{{Value: "dir/"}}}
		cfg.PriorCalls = [][]harness.Answer{Keys("cd di", "\t", "\r")}
	case "after-pending-states":
		// the earlier call ends, by interrupt, with a mark set, a kill / yank made, a numeric argument
		// and a keyboard macro being recorded (vi: back in insert mode)
		if mode == "emacs" {
			cfg.PriorCalls = [][]harness.Answer{Keys("q", "w", "\x00", "\x17", "\x18(", "e", "\x1b3", "\x03")}
		} else {
			cfg.PriorCalls = [][]harness.Answer{Keys("q", "w", "\x1b", "v", "y", "q", "a", "2", "i", "\x03")}
		}
	}
}

func c02Job(id int, text, mode string, ms metaSetting, delivery, ctx string) harness.Job {
	var ans []harness.Answer
	switch delivery {
	case "chunk":
		if text != "" {
			ans = append(ans, Key(text))
		}
	case "rune":
		for _, r := range text {
			ans = append(ans, Key(string(r)))
		}
	case "byte":
		for i := 0; i < len(text); i++ {
			ans = append(ans, harness.Answer{Bytes: []byte{text[i]}})
		}
	}
	ans = append(ans, Key("\r"))
	cfg := harness.Config{RC: modeRC(mode) + ms.rc, W: 80, H: 24, Prompt: "> "}
	c02Context(&cfg, ctx, mode)
	return harness.Job{ID: id, Cfg: cfg, Calls: [][]harness.Answer{ans}, Want: harness.Want{Obs: 2}}
}

func c02Classify(text string) string {
	cls := map[string]bool{}
	for _, r := range text {
		switch {
		case r < 0x80:
			cls["ascii"] = true
		case r < 0x100:
			cls["latin1"] = true
		case r >= 0x300 && r < 0x370:
			cls["combining"] = true
		case r >= 0x10000:
			cls["astral"] = true
		case r >= 0x2e80:
			cls["cjk"] = true
		default:
			cls["bmp"] = true
		}
	}
	var ks []string
	for _, k := range []string{"ascii", "latin1", "bmp", "cjk", "combining", "astral"} {
		if cls[k] {
			ks = append(ks, k)
		}
	}
	return strings.Join(ks, "+")
}

// c02Verdict returns "" when the trace satisfies the oracle, else a fingerprint.
func c02Verdict(t *harness.Trace, text, mode string, ms metaSetting, delivery, ctx string) (fp, what string) {
	fp, what = c02Verdict0(t, text, mode, ms, delivery, ctx)
	if fp != "" && ctx != "plain" && ctx != "" {
		fp += "/" + ctx
	}
	return
}

func c02Verdict0(t *harness.Trace, text, mode string, ms metaSetting, delivery, ctx string) (fp, what string) {
	if t.Err != "" {
		return "", ""
	}
	c := LastCall(t)
	in := fmt.Sprintf("text=%q mode=%s meta=%s delivery=%s context=%s", text, mode, ms.name, delivery, ctx)
	// The statement speaks of Emacs mode and Vi *insert* mode. The library keeps the main keymap of
	// the previous call (a call that was accepted from vi command mode is followed by a call that
	// starts in command mode), so a call that does not start in the mode named is not judged.
	if len(c.Waits) > 0 && c.Waits[0].Obs != nil {
		want := "emacs"
		if mode != "emacs" {
			want = "vi-insert"
		}
		if c.Waits[0].Obs.Main != want {
			return "", "not judged: the call starts in keymap " + c.Waits[0].Obs.Main
		}
	}
	_ = c02Classify
	switch c.Outcome {
	case "returned":
	case "panic":
		return "panic@" + c.Site, fmt.Sprintf("%s: panic %s at %s", in, c.Err, c.Site)
	default:
		return c.Outcome + "@" + c.Site, fmt.Sprintf("%s: outcome %s %s", in, c.Outcome, c.Site)
	}
	if c.Err != "" {
		return "error-returned/" + coarse(text), fmt.Sprintf("%s: returned error %q", in, c.Err)
	}
	if c.Line != text {
		kind := "altered"
		switch {
		case len(c.Line) < len(text) && isSubsequence(c.Line, text):
			kind = "dropped"
		case strings.ContainsRune(c.Line, utf8.RuneError) && !strings.ContainsRune(text, utf8.RuneError):
			kind = "replaced"
		case len(c.Line) > len(text):
			kind = "added"
		}
		return fmt.Sprintf("%s/%s/%s", kind, coarse(text), mode), fmt.Sprintf("%s: returned %q", in, c.Line)
	}
	for i, w := range c.Waits {
		if w.Obs != nil && !strings.HasPrefix(text, w.Obs.Line) {
			return "intermediate-not-prefix/" + coarse(text) + "/" + mode, fmt.Sprintf("%s: wait %d shows buffer %q", in, i, w.Obs.Line)
		}
	}
	return "", ""
}

func hasLatin1(s string) bool {
	for _, r := range s {
		if r >= 0x80 && r <= 0xff {
			return true
		}
	}
	return false
}

func coarse(text string) string {
	if isASCII(text) {
		return "ascii"
	}
	return "non-ascii"
}

func isSubsequence(a, b string) bool {
	ra, rb := []rune(a), []rune(b)
	i := 0
	for _, r := range rb {
		if i < len(ra) && ra[i] == r {
			i++
		}
	}
	return i == len(ra)
}

func init() {
	Register(&Check{ID: "C02", Level: "exploration", Run: runC02, Replay: func(c *Ctx, w *Witness) (string, string) {
		var in struct {
			Text, Mode, Meta, Delivery, Context string
		}
		jsonUnmarshal(w.Input, &in)
		var ms metaSetting
		for _, m := range c02Meta {
			if m.name == in.Meta {
				ms = m
			}
		}
		t := c.Pool.RunOne(w.Job)
		fp, what := c02Verdict(t, in.Text, in.Mode, ms, in.Delivery, in.Context)
		return fmt.Sprintf("trace: %s\n%s", jsonString(t), what), fp
	}})
}

func runC02(c *Ctx) {
	L := 2
	if !c.Quick() {
		L = 3
	}
	texts := c02Strings(c02Alphabet, L)
	if !c.Quick() {
		// every single rune of U+0020..U+00FF (printable) and representatives of width classes
		for r := rune(0x20); r <= 0xff; r++ {
			if r == 0x7f || (r >= 0x80 && r < 0xa0) || r == 0xad {
				continue
			}
			texts = append(texts, string(r), "x"+string(r)+"y")
		}
		for _, r := range []rune{0x3b1, 0x416, 0x5d0, 0x627, 0x905, 0xe01, 0x1100, 0x3042, 0xac00, 0xff21, 0x20ac, 0x2603, 0x1f680, 0x20000, 0xfffd} {
			texts = append(texts, string(r), "x"+string(r)+"y")
		}
	}
	// longer texts: blanks, slashes and a shell comment at many offsets, lengths around the points where
	// a buffer of runes is reallocated (32, 64), so that a line grows through them one keypress at a time
	long := []string{"make test   # run the whole suite again", "git log --oneline", "abcdefg/hij", "a b c d e f g", "échø çà üñï/x y", "x #y"}
	for n := 30; n <= 44; n++ {
		long = append(long, "ab #"+strings.Repeat("c", n-4))
	}
	for _, n := range []int{62, 63, 64, 65, 66, 70} {
		long = append(long, "# "+strings.Repeat("d", n-2))
	}
	nShort := len(texts)
	texts = append(texts, long...)
	c.Rule = fmt.Sprintf("all strings of length <= %d over %d runes %q x {emacs,vi-insert} x 3 meta settings x {one chunk, one rune per read, one BYTE per read (non-ASCII)} x %d contexts %q (optional features watching the typing, a terminal narrower than the text, a later call on a Shell whose earlier call ended accepted / interrupted / in vi command mode / with pending states) + %d longer texts (blanks, slashes, a shell comment, lengths 30-44 and 62-70) + Enter; oracle applied to ASCII-only strings under every setting and to non-ASCII strings under convert-meta off; non-trivial = distinct non-empty typed string for which the oracle applied", L, len(c02Alphabet), c02Alphabet, len(c02Contexts), c02Contexts, len(long))
	c.Bounds = map[string]any{"max_len": L, "alphabet": c02Alphabet, "modes": []string{"emacs", "vi-insert"}, "meta": []string{"default", "convert-meta-off", "utf8-usual"}, "delivery": []string{"chunk", "rune", "byte"}, "contexts": c02Contexts}
	c.Assumptions = []string{"non-ASCII oracle scoped to convert-meta off as the statement says"}

	type meta struct {
		text, mode, delivery, ctx string
		ms                        metaSetting
	}
	var jobs []harness.Job
	var metas []meta
	for ti, text := range texts {
		for _, mode := range []string{"emacs", "vi-insert"} {
			for _, ms := range c02Meta {
				if !isASCII(text) && ms.name == "default" {
					continue // statement scopes non-ASCII to convert-meta off
				}
				if hasLatin1(text) && ms.name != "utf8-usual" {
					// With output-meta off the library deliberately inserts U+0080..U+00FF
					// in its quoted form (^[x); the "usual UTF-8 meta settings" include
					// output-meta on, so this range is only judged there.
					continue
				}
				for _, d := range []string{"chunk", "rune", "byte"} {
					if d == "rune" && utf8.RuneCountInString(text) < 2 {
						continue
					}
					if d == "byte" && isASCII(text) {
						continue // same as "rune"
					}
					for _, ctx := range c02Contexts {
						if ti >= nShort && (d == "byte" || ms.name == "convert-meta-off" || (c.Quick() && ms.name == "default" && ctx != "plain" && ctx != "decorations" && ctx != "after-completed-call")) {
							continue // the longer texts: whole-chunk and per-rune deliveries
						}
						if ctx != "plain" && (d == "byte" || ms.name == "convert-meta-off") {
							continue // contexts: whole-chunk and per-rune deliveries under the default and the usual UTF-8 settings
						}
						jobs = append(jobs, c02Job(len(jobs), text, mode, ms, d, ctx))
						metas = append(metas, meta{text, mode, d, ctx, ms})
					}
				}
			}
		}
	}
	c.Pool.Map(jobs, func(j *harness.Job, t *harness.Trace) {
		m := metas[j.ID]
		c.Evaluations++
		if t.Err != "" {
			c.HarnessError(t.Err)
			return
		}
		if m.text != "" {
			c.NonTrivial(m.text)
		}
		if c.Evaluations%997 == 1 {
			c.Sample(map[string]any{"typed": m.text, "mode": m.mode, "meta": m.ms.name, "delivery": m.delivery, "context": m.ctx, "returned": LastCall(t).Line})
		}
		fp, what := c02Verdict(t, m.text, m.mode, m.ms, m.delivery, m.ctx)
		if fp == "" && strings.HasPrefix(what, "not judged") {
			c.Outcome(what + "/" + m.ctx)
			return
		}
		if fp == "" {
			c.Outcome("ok/" + c02Classify(m.text) + "/" + m.ctx)
			return
		}
		c.Outcome(fp)
		if _, ok := c.cands[fp]; ok {
			c.cands[fp].count++
			return
		}
		jj := *j
		w := Witness{Fingerprint: fp, What: what, Engine: "session", Job: &jj,
			Input:    jsonRaw(map[string]string{"Text": m.text, "Mode": m.mode, "Meta": m.ms.name, "Delivery": m.delivery, "Context": m.ctx}),
			Expected: fmt.Sprintf("%q", m.text), Observed: fmt.Sprintf("%q err=%q outcome=%s", LastCall(t).Line, LastCall(t).Err, LastCall(t).Outcome)}
		c.Violate(w, func() string {
			t2 := c.Pool.RunOne(&jj)
			f, _ := c02Verdict(t2, m.text, m.mode, m.ms, m.delivery, m.ctx)
			return f
		})
	})
}
