package checks

import (
	"fmt"
	"strings"

	"verif/internal/harness"
)

// C08 — accepted lines are recorded in history exactly once.
//
// Full product: accepted text x prior contents per source x number/kind of bound sources
// x history-size x accept variant x mode, on the real Readline loop, compared with a
// reference model per source:
//
//	after = before ++ [text]  iff the variant records, err == nil, trim(text) != "",
//	        trim(text) != trim(last(before)) and (size unset or len(before) < size)
//	after = before            otherwise
//
// Multi-source cases are repeated (map iteration order decides the write order).

type c08Variant struct {
	name    string
	keys    []string // after the text
	records bool
	second  []string // keys of a second Readline call ("" = none)
	multi   bool
}

const (
	c08Hold  = "\x18\x1dh"
	c08Oper  = "\x18\x1do"
	c08Infer = "\x18\x1di"
)

var c08Variants = []c08Variant{
	{name: "accept-line", keys: []string{"\r"}, records: true},
	{name: "accept-and-hold", keys: []string{c08Hold}, records: true},
	{name: "hold-then-accept", keys: []string{c08Hold}, records: true, second: []string{"\r"}},
	{name: "multi-line-accept", keys: []string{"\r", "b", "\r"}, records: true, multi: true},
	{name: "operate-and-get-next", keys: []string{c08Oper}, records: false},
	{name: "accept-and-infer-next-history", keys: []string{c08Infer}, records: false},
	{name: "interrupt", keys: []string{"\x03"}, records: false},
	{name: "abort-C-g", keys: []string{"\x07"}, records: false},
	// two calls on one Shell: whatever the first call did with the line (recorded it, replayed
	// history instead, returned it with an error), the same text accepted by the next call is
	// judged against each source's contents at that moment ("<text>" = the case's text again)
	{name: "accept-then-same", keys: []string{"\r"}, records: true, second: []string{"\x15", "<text>", "\r"}},
	{name: "operate-then-same", keys: []string{c08Oper}, records: false, second: []string{"\x15", "<text>", "\r"}},
	{name: "infer-then-same", keys: []string{c08Infer}, records: false, second: []string{"\x15", "<text>", "\r"}},
	{name: "interrupt-then-same", keys: []string{"\x03"}, records: false, second: []string{"\x15", "<text>", "\r"}},
	{name: "operate-then-other", keys: []string{c08Oper}, records: false, second: []string{"\x15", "zz", "\r"}},
}

type c08Case struct {
	text    string
	priors  [][]string // per source
	kinds   []string
	size    string // "" unset
	variant c08Variant
	mode    string
	rep     int
	cb      bool // an always-accepting AcceptMultiline callback is installed
}

func c08Expect(before []string, text string, records bool, errEmpty bool, size string) (after []string, either bool) {
	after = append([]string{}, before...)
	t := strings.TrimSpace(text)
	if !records || !errEmpty || t == "" {
		return after, false
	}
	if len(before) > 0 && strings.TrimSpace(before[len(before)-1]) == t {
		return after, false
	}
	switch size {
	case "":
	case "0":
		// the statement is silent on 0 (the code treats it as unset, GNU as "save nothing")
		return append(after, text), true
	default:
		var n int
		fmt.Sscan(size, &n)
		if len(before) >= n {
			return after, false
		}
	}
	return append(after, text), false
}

func trimAll(l []string) []string {
	out := make([]string, len(l))
	for i, s := range l {
		out[i] = strings.TrimSpace(s)
	}
	return out
}

func c08Job(id int, cs c08Case) harness.Job {
	rc := modeRC(cs.mode) + "set convert-meta off\nset input-meta on\nset output-meta on\n"
	if cs.size != "" {
		rc += "set history-size " + cs.size + "\n"
	}
	for _, km := range []string{"emacs", "vi-insert"} {
		rc += "set keymap " + km + "\n" + `"\C-x\C-]h": accept-and-hold` + "\n" + `"\C-x\C-]o": operate-and-get-next` + "\n" + `"\C-x\C-]i": accept-and-infer-next-history` + "\n"
	}
	cfg := harness.Config{RC: rc, W: 80, H: 24, Prompt: "> "}
	for i, k := range cs.kinds {
		cfg.Hist = append(cfg.Hist, harness.HistSpec{Kind: k, Name: fmt.Sprintf("src%d", i), Lines: cs.priors[i]})
	}
	if cs.variant.multi {
		cfg.Multiline = "first"
	} else if cs.cb {
		cfg.Multiline = "always"
	}
	var ans []harness.Answer
	if cs.text != "" {
		ans = append(ans, Key(cs.text))
	}
	ans = append(ans, Keys(cs.variant.keys...)...)
	calls := [][]harness.Answer{ans}
	if cs.variant.second != nil {
		var sec []string
		for _, k := range cs.variant.second {
			if k == "<text>" {
				if cs.text == "" {
					continue
				}
				k = cs.text
			}
			sec = append(sec, k)
		}
		calls = append(calls, Keys(sec...))
	}
	return harness.Job{ID: id, Cfg: cfg, Calls: calls, Want: harness.Want{HistAfter: true}}
}

func srcName(cs c08Case, i int) string {
	if cs.kinds[i] == "default" {
		return "default"
	}
	return fmt.Sprintf("src%d", i)
}

func c08Verdict(cs c08Case, t *harness.Trace) (fp, what string, recorded bool) {
	if t.Err != "" {
		return "", "", false
	}
	before := make([][]string, len(cs.kinds))
	for i := range cs.kinds {
		before[i] = append([]string{}, cs.priors[i]...)
	}
	desc := fmt.Sprintf("text=%q priors=%v kinds=%v history-size=%q variant=%s mode=%s accept-multiline-callback=%v", cs.text, cs.priors, cs.kinds, cs.size, cs.variant.name, cs.mode, cs.cb)
	for ci := range t.Calls {
		call := &t.Calls[ci]
		if call.Outcome != "returned" {
			return "not-returned/" + call.Outcome + "@" + call.Site, fmt.Sprintf("%s: call %d outcome %s %s %s", desc, ci+1, call.Outcome, call.Err, call.Site), false
		}
		text := call.Line
		for i := range cs.kinds {
			name := srcName(cs, i)
			records := cs.variant.records || ci > 0 // a second call is always ended by accept-line
			want, either := c08Expect(before[i], text, records, call.Err == "", cs.size)
			got := call.Hist[name]
			ok := eqStrings(trimAll(got), trimAll(want)) || (either && eqStrings(trimAll(got), trimAll(before[i])))
			if !ok {
				kind := "missing"
				switch {
				case len(got) > len(want):
					kind = "unexpected-or-duplicate"
				case len(got) == len(want):
					kind = "altered"
				}
				// root-cause class: the most specific configuration feature present
				cls := cs.variant.name
				switch {
				case cs.size != "" && cs.size != "0":
					cls = "history-size"
				case len(cs.kinds) > 1:
					cls = "multi-source"
				}
				return fmt.Sprintf("record-%s/%s", kind, cls), fmt.Sprintf("%s: after call %d (returned %q err=%q) source %s holds %q, expected %q", desc, ci+1, text, call.Err, name, got, want), false
			}
			if cs.kinds[i] == "mem" {
				nw := len(call.HistWrites[name])
				wantW := len(want) - len(before[i])
				if either && nw == 0 {
					wantW = 0
				}
				if nw != wantW {
					return "write-calls/" + cs.variant.name, fmt.Sprintf("%s: call %d made %d Write calls on %s, expected %d", desc, ci+1, nw, name, wantW), false
				}
			}
			if len(got) > len(before[i]) {
				recorded = true
			}
			before[i] = got
		}
	}
	return "", "", recorded
}

func init() {
	Register(&Check{ID: "C08", Level: "exploration", Run: runC08, Replay: func(c *Ctx, w *Witness) (string, string) {
		var cs c08Case
		var in struct {
			Text    string
			Priors  [][]string
			Kinds   []string
			Size    string
			Variant string
			Mode    string
			CB      bool
		}
		jsonUnmarshal(w.Input, &in)
		cs = c08Case{text: in.Text, priors: in.Priors, kinds: in.Kinds, size: in.Size, mode: in.Mode, cb: in.CB}
		for _, v := range c08Variants {
			if v.name == in.Variant {
				cs.variant = v
			}
		}
		t := c.Pool.RunOne(w.Job)
		fp, what, _ := c08Verdict(cs, t)
		return what + "\n" + jsonString(t), fp
	}})
}

func runC08(c *Ctx) {
	texts := []string{"", " ", "a", " a ", "b", "é"}
	priors := [][]string{{}, {"a"}, {"b", "a"}, {"a", "b"}, {"a", "a"}}
	if !c.Quick() {
		priors = append(priors, []string{"a", "b", "a"}, []string{"b", "b", "b"})
	}
	srcCfgs := [][]string{{"default"}, {"mem"}, {"mem", "mem"}, {"file", "mem"}}
	if !c.Quick() {
		srcCfgs = append(srcCfgs, []string{"mem", "libmem", "file"})
	}
	sizes := []string{"", "0", "1", "2", "100"}
	reps := 8
	if !c.Quick() {
		reps = 16
	}
	c.Rule = fmt.Sprintf("full product: %d texts x %d prior contents x %d source configurations x %d history-size settings x %d accept variants x {emacs, vi-insert} x {no AcceptMultiline callback, always-accepting callback (history-size unset/2)}; multi-source cases repeated %d times (map iteration order); reference model per source. non-trivial = distinct cases in which the line was actually recorded in at least one source", len(texts), len(priors), len(srcCfgs), len(sizes), len(c08Variants), reps)
	c.Bounds = map[string]any{"texts": texts, "priors": priors, "sources": srcCfgs, "history_size": sizes, "variants": len(c08Variants), "repeats_multi_source": reps}
	c.Assumptions = []string{"history-size 0: both 'unlimited' and 'save nothing' are accepted (statement is silent)", "map-iteration order covered by repetition, not enumeration"}

	var cases []c08Case
	for _, v := range c08Variants {
		for _, mode := range []string{"emacs", "vi-insert"} {
			if v.name == "abort-C-g" && mode != "emacs" {
				continue // C-g is not an exit path in vi-insert
			}
			for _, sc := range srcCfgs {
				for pi, p := range priors {
					for _, size := range sizes {
						for _, text := range texts {
							ps := make([][]string, len(sc))
							for i := range sc {
								ps[i] = priors[(pi+i*2)%len(priors)]
							}
							ps[0] = p
							n := 1
							if len(sc) > 1 {
								n = reps
							}
							for r := 0; r < n; r++ {
								cases = append(cases, c08Case{text: text, priors: ps, kinds: sc, size: size, variant: v, mode: mode, rep: r})
							}
							if !v.multi && (size == "" || size == "2") {
								// the same with an (always accepting) AcceptMultiline callback installed
								cases = append(cases, c08Case{text: text, priors: ps, kinds: sc, size: size, variant: v, mode: mode, cb: true})
							}
						}
					}
				}
			}
		}
	}
	jobs := make([]harness.Job, len(cases))
	for i, cs := range cases {
		jobs[i] = c08Job(i, cs)
	}
	c.Pool.Map(jobs, func(j *harness.Job, t *harness.Trace) {
		cs := cases[j.ID]
		c.Evaluations++
		if t.Err != "" {
			c.HarnessError(t.Err)
			return
		}
		fp, what, recorded := c08Verdict(cs, t)
		key := fmt.Sprintf("%q|%v|%v|%s|%s|%s|%v", cs.text, cs.priors, cs.kinds, cs.size, cs.variant.name, cs.mode, cs.cb)
		if recorded {
			c.NonTrivial(key)
		}
		if c.Evaluations%1500 == 7 {
			c.Sample(map[string]any{"text": cs.text, "priors": cs.priors, "kinds": cs.kinds, "history-size": cs.size, "variant": cs.variant.name, "mode": cs.mode, "after": LastCall(t).Hist})
		}
		if fp == "" {
			if recorded {
				c.Outcome("ok/recorded")
			} else {
				c.Outcome("ok/not-recorded")
			}
			return
		}
		c.Outcome(fp)
		if cd, ok := c.cands[fp]; ok {
			cd.count++
			return
		}
		jj := *j
		w := Witness{Fingerprint: fp, What: what, Engine: "session", Job: &jj,
			Input: jsonRaw(map[string]any{"Text": cs.text, "Priors": cs.priors, "Kinds": cs.kinds, "Size": cs.size, "Variant": cs.variant.name, "Mode": cs.mode, "CB": cs.cb})}
		c.Violate(w, func() string {
			// order-dependent defects need several tries: any reproduction among 24 counts
			for k := 0; k < 24; k++ {
				f, _, _ := c08Verdict(cs, c.Pool.RunOne(&jj))
				if f == fp {
					return f
				}
			}
			return ""
		})
	})
}
