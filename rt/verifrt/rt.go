// Package verifrt is the run-time of the schedule explorer (Engine B). It is NOT part of
// the repository: it is supplied to the build through -overlay as the virtual package
// github.com/reeflective/readline/internal/verifrt, together with mechanically rewritten
// copies of the repository's files in which every synchronisation operation, channel
// operation, goroutine start, signal registration, terminal write and terminal read calls
// one of the wrappers below. With no scheduler attached (S == nil) every wrapper is the
// real operation.
//
// With a scheduler attached, exactly one managed thread runs at a time. Every wrapper parks
// the calling thread with an operation descriptor; the scheduler computes which parked
// operations are enabled from a shadow model of the mutexes / channels / terminal input
// queue, and picks one according to the schedule being replayed (default: keep running the
// current thread; otherwise the lowest thread id; environment events last).
package verifrt

import (
	"fmt"
	"os"
	"reflect"
	"runtime"
	"strings"
	"sync"
)

// S is the attached scheduler (nil: all wrappers are the real operations).
var S *Sched

type abortSentinel struct{}

// Decision is one scheduling decision as it occurred.
type Decision struct {
	Enabled    []string // canonical order: current thread first if enabled, then ascending ids, then environment events
	Chosen     int
	CurEnabled bool   // the thread that was running could have continued
	Cost       int    // 1 if this choice is a preemption or an environment disturbance
	Note       string `json:",omitempty"`
}

// Thread is a managed goroutine.
type Thread struct {
	ID    int
	Name  string
	turn  chan struct{}
	op    *op
	done  bool
	sat   bool // the parked operation was completed by a partner (rendezvous)
	val   reflect.Value
	ok    bool
	selIx int
}

type op struct {
	kind  string // lock rlock send recv select read start
	obj   uintptr
	chans []reflect.Value
	val   reflect.Value
	mu    *MutexState
	where string
}

// EnvEvent is an environment pseudo-thread step.
type EnvEvent struct {
	Name    string
	Enabled func() bool
	Do      func()
	Cost    int
}

// Sched is the cooperative scheduler.
type Sched struct {
	mu         sync.Mutex
	threads    []*Thread
	cur        *Thread
	Choices    []int // schedule prefix to replay
	Decisions  []Decision
	closed     map[uintptr]bool
	notify     []reflect.Value // channels registered by Notify (SIGWINCH)
	Stdin      []byte
	StdinEOF   bool
	Env        []*EnvEvent
	Deadlock   string
	aborted    bool
	Out        func(p []byte) // terminal output sink
	MaxPoints  int
	Failure    string // harness-level failure (replay divergence...)
	mainDone   bool
	OnRead     func(thread, where string, n int) // n bytes of terminal input consumed by a thread
	OnDecision func() // called at every scheduling point, all threads parked or done
	OnIdle     func() // called when main is parked in a terminal read and nothing else is enabled (a "wait")
	nThreads   int    // enabled threads at the decision being taken
	wg         sync.WaitGroup
}

// Quiescent reports (while a decision is being taken) that no thread is enabled and the
// main thread is parked in a terminal read.
func (s *Sched) Quiescent() bool {
	m := s.threads[0]
	return s.nThreads == 0 && !m.done && m.op != nil && m.op.kind == "read"
}

// ThreadState is what a thread is parked on at a scheduling point.
type ThreadState struct {
	Name, Kind, Where string
	Done              bool
}

// ThreadStates lists all threads (valid inside OnDecision).
func (s *Sched) ThreadStates() []ThreadState {
	out := make([]ThreadState, 0, len(s.threads))
	for _, t := range s.threads {
		ts := ThreadState{Name: t.Name, Done: t.done}
		if t.op != nil {
			ts.Kind, ts.Where = t.op.kind, t.op.where
		}
		out = append(out, ts)
	}
	return out
}

// CurName is the name of the thread that is running.
func (s *Sched) CurName() string {
	if s.cur == nil {
		return "?"
	}
	return s.cur.Name
}

// Started reports that the main thread has reached its first scheduling point.
func (s *Sched) Started() bool { return len(s.Decisions) > 0 }

// New creates a scheduler; call Run to execute main under it.
func New() *Sched {
	return &Sched{closed: map[uintptr]bool{}, MaxPoints: 200000}
}

func where() string {
	pcs := make([]uintptr, 12)
	n := runtime.Callers(3, pcs)
	fr := runtime.CallersFrames(pcs[:n])
	for {
		f, more := fr.Next()
		if !strings.Contains(f.Function, "internal/verifrt") && !strings.Contains(f.Function, "internal/vsync") {
			fn := f.Function
			if i := strings.LastIndex(fn, "/"); i >= 0 {
				fn = fn[i+1:]
			}
			return fn
		}
		if !more {
			return "?"
		}
	}
}

// Run executes fn as the main thread under the scheduler and returns when the main thread
// has returned and no other thread or event is enabled (or on deadlock / abort).
func (s *Sched) Run(fn func()) {
	S = s
	defer func() { S = nil }()
	main := &Thread{ID: 0, Name: "main", turn: make(chan struct{}, 1)}
	s.threads = append(s.threads, main)
	s.cur = main
	finished := make(chan struct{})
	finalBlocked = nil
	s.wg.Add(1)
	go func() {
		defer s.wg.Done()
		defer close(finished)
		defer func() {
			if r := recover(); r != nil {
				if _, ok := r.(abortSentinel); !ok {
					s.mu.Lock()
					if s.Failure == "" {
						s.Failure = fmt.Sprintf("panic in main thread: %v", r)
					}
					s.mu.Unlock()
					panic(r)
				}
			}
		}()
		<-main.turn
		func() {
			defer s.exit(main)
			fn()
		}()
	}()
	main.turn <- struct{}{}
	<-finished
	// every managed goroutine must have unwound before the next execution starts
	s.wg.Wait()
}

// exit is called when a managed thread's function has returned.
func (s *Sched) exit(t *Thread) {
	if s.aborted {
		return
	}
	t.done = true
	if t.ID == 0 {
		s.mainDone = true
	}
	s.dispatch(t, true)
}

// park parks the current thread on o and returns when it has been scheduled and the
// operation may be performed.
func (s *Sched) park(o *op) *Thread {
	t := s.cur
	if s.aborted {
		panic(abortSentinel{})
	}
	t.op = o
	t.sat = false
	s.dispatch(t, false)
	if s.aborted {
		panic(abortSentinel{})
	}
	return t
}

// enabled reports whether a parked thread can proceed.
func (s *Sched) enabled(t *Thread) bool {
	if t.done || t.op == nil {
		return false
	}
	if t.sat {
		return true
	}
	o := t.op
	switch o.kind {
	case "start", "print", "yield":
		return true
	case "lock":
		return !o.mu.W && o.mu.R == 0
	case "rlock":
		return !o.mu.W
	case "read":
		return len(s.Stdin) > 0 || s.StdinEOF
	case "send":
		ch := o.chans[0]
		if ch.Cap() > 0 {
			return ch.Len() < ch.Cap()
		}
		return s.partner(t, ch.Pointer(), true) != nil
	case "recv":
		return s.chanReady(t, o.chans[0])
	case "select":
		for _, ch := range o.chans {
			if s.chanReady(t, ch) {
				return true
			}
		}
		return false
	}
	return false
}

func (s *Sched) chanReady(t *Thread, ch reflect.Value) bool {
	if s.closed[ch.Pointer()] {
		return true
	}
	if ch.Cap() > 0 {
		return ch.Len() > 0
	}
	return s.partner(t, ch.Pointer(), false) != nil
}

// partner finds a thread parked on the other side of an unbuffered channel.
func (s *Sched) partner(t *Thread, ptr uintptr, wantReceiver bool) *Thread {
	for _, u := range s.threads {
		if u == t || u.done || u.op == nil || u.sat {
			continue
		}
		switch u.op.kind {
		case "recv", "select":
			if wantReceiver {
				for _, c := range u.op.chans {
					if c.Pointer() == ptr {
						return u
					}
				}
			}
		case "send":
			if !wantReceiver && u.op.chans[0].Pointer() == ptr {
				return u
			}
		}
	}
	return nil
}

// dispatch chooses what runs next. Called by a thread that has just parked (or exited).
func (s *Sched) dispatch(self *Thread, exiting bool) {
	for {
		if len(s.Decisions) >= s.MaxPoints {
			s.abort("too many scheduling points")
			return
		}
		if s.OnDecision != nil {
			s.OnDecision()
		}
		var names []string
		var acts []func() *Thread // returns the thread to run (nil for env events)
		curEnabled := !exiting && s.enabled(self)
		add := func(t *Thread) {
			tt := t
			names = append(names, fmt.Sprintf("%s:%s@%s", tt.Name, tt.op.kind, tt.op.where))
			acts = append(acts, func() *Thread { return tt })
		}
		if curEnabled {
			add(self)
		}
		for _, t := range s.threads {
			if t != self || exiting {
				if t != self && s.enabled(t) {
					add(t)
				}
			}
		}
		nThreads := len(names)
		s.nThreads = nThreads
		for _, e := range s.Env {
			if e.Enabled() {
				ee := e
				names = append(names, "env:"+ee.Name)
				acts = append(acts, func() *Thread { ee.Do(); return nil })
			}
		}
		if len(names) == 0 {
			// nothing can run
			if s.mainDone {
				s.finish()
				return
			}
			s.deadlock()
			return
		}
		// a "wait": only environment events can make progress and main reads the terminal
		if nThreads == 0 && s.OnIdle != nil && s.Quiescent() {
			s.OnIdle()
		}
		choice := 0
		idx := len(s.Decisions)
		if idx < len(s.Choices) {
			choice = s.Choices[idx]
			if choice < 0 || choice >= len(names) {
				s.Failure = fmt.Sprintf("replay divergence: decision %d has %d alternatives %v, schedule asks for %d", idx, len(names), names, choice)
				s.abort("replay divergence")
				return
			}
		}
		cost := 0
		if choice >= nThreads {
			for _, e := range s.Env {
				if "env:"+e.Name == names[choice] {
					cost = e.Cost
				}
			}
		} else if curEnabled && choice != 0 {
			cost = 1
		}
		s.Decisions = append(s.Decisions, Decision{Enabled: names, Chosen: choice, CurEnabled: curEnabled, Cost: cost})
		next := acts[choice]()
		if next == nil {
			continue // an environment event ran: decide again
		}
		s.cur = next
		if next == self && !exiting {
			return
		}
		next.turn <- struct{}{}
		if exiting {
			return
		}
		<-self.turn
		return
	}
}

func (s *Sched) describe() string {
	var parts []string
	for _, t := range s.threads {
		switch {
		case t.done:
			parts = append(parts, t.Name+":done")
		case t.op != nil:
			parts = append(parts, fmt.Sprintf("%s@%s:%s", t.Name, t.op.where, t.op.kind))
		default:
			parts = append(parts, t.Name+":running")
		}
	}
	return strings.Join(parts, ", ")
}

func (s *Sched) deadlock() {
	s.Deadlock = s.describe()
	s.abort("deadlock")
}

// Blocked lists the threads still parked when the run ended.
func (s *Sched) Blocked() []string {
	var out []string
	for _, t := range s.threads {
		if !t.done && t.op != nil {
			out = append(out, fmt.Sprintf("%s@%s:%s", t.Name, t.op.where, t.op.kind))
		}
	}
	return out
}

var finalBlocked []string

func (s *Sched) finish() {
	// main has returned and nothing is enabled: threads still parked are reported by Blocked
	finalBlocked = s.Blocked()
	s.abort("finished")
}

// abort wakes every parked thread with the abort flag set: they unwind with a sentinel panic.
func (s *Sched) abort(reason string) {
	if s.aborted {
		return
	}
	s.aborted = true
	for _, t := range s.threads {
		if !t.done && t != s.cur {
			select {
			case t.turn <- struct{}{}:
			default:
			}
		}
	}
}

// FinalBlocked returns the threads that were still parked when the run finished normally.
func FinalBlocked() []string { return finalBlocked }

// --- wrappers ---------------------------------------------------------------------

// Go starts fn as a managed thread (go statement).
func Go(fn func()) {
	s := S
	if s == nil {
		go fn()
		return
	}
	t := &Thread{ID: len(s.threads), Name: fmt.Sprintf("t%d", len(s.threads)), turn: make(chan struct{}, 1)}
	t.op = &op{kind: "start", where: where()}
	s.threads = append(s.threads, t)
	s.wg.Add(1)
	go func() {
		defer s.wg.Done()
		defer func() {
			if r := recover(); r != nil {
				if _, ok := r.(abortSentinel); !ok {
					s.Failure = fmt.Sprintf("panic in %s: %v", t.Name, r)
					s.abort("panic")
				}
			}
		}()
		<-t.turn
		if s.aborted {
			return
		}
		t.op = nil
		func() {
			defer s.exit(t)
			fn()
		}()
	}()
}

// NameThread renames the most recently created thread (harness use).
func NameThread(name string) {
	if S != nil && len(S.threads) > 0 {
		S.threads[len(S.threads)-1].Name = name
	}
}

// Send is ch <- v.
func Send[T any](ch chan<- T, v T) {
	s := S
	if s == nil {
		ch <- v
		return
	}
	cv := reflect.ValueOf(ch)
	t := s.park(&op{kind: "send", chans: []reflect.Value{cv}, val: reflect.ValueOf(&v).Elem(), where: where()})
	defer func() { t.op = nil }()
	if t.sat {
		return // a receiver took the value
	}
	if cv.Cap() > 0 {
		cv.TrySend(reflect.ValueOf(&v).Elem())
		return
	}
	p := s.partner(t, cv.Pointer(), true)
	p.val, p.ok, p.sat = reflect.ValueOf(&v).Elem(), true, true
	for i, c := range p.op.chans {
		if c.Pointer() == cv.Pointer() {
			p.selIx = i
		}
	}
}

func (s *Sched) doRecv(t *Thread, cv reflect.Value) (reflect.Value, bool) {
	if s.closed[cv.Pointer()] && (cv.Cap() == 0 || cv.Len() == 0) {
		return reflect.Zero(cv.Type().Elem()), false
	}
	if cv.Cap() > 0 {
		v, ok := cv.TryRecv()
		return v, ok
	}
	p := s.partner(t, cv.Pointer(), false)
	p.sat = true
	return p.op.val, true
}

// Recv is <-ch.
func Recv[T any](ch <-chan T) T {
	v, _ := Recv2(ch)
	return v
}

// Recv2 is v, ok := <-ch.
func Recv2[T any](ch <-chan T) (T, bool) {
	s := S
	if s == nil {
		v, ok := <-ch
		return v, ok
	}
	cv := reflect.ValueOf(ch)
	t := s.park(&op{kind: "recv", chans: []reflect.Value{cv}, where: where()})
	defer func() { t.op = nil }()
	var v reflect.Value
	var ok bool
	if t.sat {
		v, ok = t.val, t.ok
	} else {
		v, ok = s.doRecv(t, cv)
	}
	var out T
	if v.IsValid() {
		out, _ = v.Interface().(T)
	}
	return out, ok
}

// Select is a select statement with receive-only cases whose values are not used: it
// returns the index of the case that fired.
func Select(chans ...any) int {
	s := S
	var cvs []reflect.Value
	for _, c := range chans {
		cvs = append(cvs, reflect.ValueOf(c))
	}
	if s == nil {
		cases := make([]reflect.SelectCase, len(cvs))
		for i, c := range cvs {
			cases[i] = reflect.SelectCase{Dir: reflect.SelectRecv, Chan: c}
		}
		i, _, _ := reflect.Select(cases)
		return i
	}
	t := s.park(&op{kind: "select", chans: cvs, where: where()})
	defer func() { t.op = nil }()
	if t.sat {
		return t.selIx
	}
	for i, c := range cvs {
		if s.chanReady(t, c) {
			s.doRecv(t, c)
			return i
		}
	}
	return 0
}

// Close is close(ch).
func Close[T any](ch chan<- T) {
	if s := S; s != nil {
		s.closed[reflect.ValueOf(ch).Pointer()] = true
	}
	close(ch)
}

// Notify is signal.Notify: under the scheduler the channel is registered with the
// scheduler's signal source instead of the Go runtime.
func Notify(c chan<- os.Signal, sig ...os.Signal) {
	if s := S; s != nil {
		s.notify = append(s.notify, reflect.ValueOf(c))
		return
	}
	signalNotify(c, sig...)
}

// DeliverSignal does what the runtime does on a signal: a non-blocking send to every
// registered channel.
func (s *Sched) DeliverSignal(sig os.Signal) {
	for _, c := range s.notify {
		c.TrySend(reflect.ValueOf(&sig).Elem())
	}
}

// --- terminal ---------------------------------------------------------------------

func out(p []byte) {
	s := S
	if s == nil {
		os.Stdout.Write(p)
		return
	}
	t := s.park(&op{kind: "print", where: where()})
	t.op = nil
	if s.Out != nil {
		s.Out(p)
	}
}

// Print, Printf, Println are fmt.Print* towards the terminal.
func Print(a ...any) (int, error) {
	b := []byte(fmt.Sprint(a...))
	out(b)
	return len(b), nil
}

func Printf(format string, a ...any) (int, error) {
	b := []byte(fmt.Sprintf(format, a...))
	out(b)
	return len(b), nil
}

func Println(a ...any) (int, error) {
	b := []byte(fmt.Sprintln(a...))
	out(b)
	return len(b), nil
}

type stdinT struct{}

// Stdin replaces os.Stdin in the key reader: a read of the (virtual) terminal input.
var Stdin = &stdinT{}

func (*stdinT) Read(p []byte) (int, error) {
	s := S
	if s == nil {
		return os.Stdin.Read(p)
	}
	w := where()
	t := s.park(&op{kind: "read", where: w})
	t.op = nil
	if len(s.Stdin) == 0 {
		return 0, fmt.Errorf("EOF")
	}
	n := copy(p, s.Stdin)
	s.Stdin = s.Stdin[n:]
	if s.OnRead != nil {
		s.OnRead(t.Name, w, n)
	}
	return n, nil
}

func (*stdinT) Close() error { return nil }
func (*stdinT) Fd() uintptr  { return os.Stdin.Fd() }
func (*stdinT) Name() string { return os.Stdin.Name() }

type stderrT struct{}

// Stderr replaces os.Stderr in the key reader.
var Stderr = &stderrT{}

func (*stderrT) WriteString(x string) (int, error) {
	out([]byte(x))
	return len(x), nil
}
func (*stderrT) Write(p []byte) (int, error) { out(p); return len(p), nil }
func (*stderrT) Fd() uintptr                 { return os.Stderr.Fd() }

// --- mutex shadow (used by vsync) ---------------------------------------------------

// MutexState is the shadow of a mutex, kept by the shim object itself.
type MutexState struct {
	W bool
	R int
}

// Acquire parks the calling thread until the mutex can be taken in the given mode
// ("lock" or "rlock"); the shim updates the state afterwards. It reports whether a
// scheduler is attached.
func Acquire(kind string, st *MutexState) bool {
	s := S
	if s == nil {
		return false
	}
	t := s.park(&op{kind: kind, mu: st, where: where()})
	t.op = nil
	return true
}
