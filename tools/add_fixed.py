#!/usr/bin/env python3
"""usage: tools/add_fixed.py <PROP> <fingerprint> <commit> <what>  - appends a 'fixed' entry to known_findings.json (dev-time only)"""
import json, sys
prop, fp, commit, what = sys.argv[1:5]
p='/verif/known_findings.json'
k=json.load(open(p))
k['Findings'].append({"Status":"fixed","Property":prop,"Fingerprint":fp,"Commit":commit,"What":what,"Line":f"fixed: property={prop} {commit} {what}"})
json.dump(k, open(p,'w'), indent=1, ensure_ascii=False)
print("added", prop, fp)
