package checks

import (
	"fmt"
	"strings"

	"verif/internal/harness"
)

// Local keymaps (vi-opp, visual, menu-select) for C03.
//
// The local keymap under test is REPLACED by a fresh map holding the table T (1..2
// bindings to logging probe commands over the keys a, b, C-x, sequences of <= 2 keys); the
// session first enters the local keymap with real keys (vi: "xyz" ESC then d / v; emacs:
// "f" TAB on three candidates), then every key string of <= 3 keys is typed one key per
// read. What a command run from a local keymap does to that keymap (operator-pending ends,
// the menu may close) is not the subject of C03, so the reference tokenizer is followed up
// to the first invocation only:
//   (a) soundness on the whole input: every logged invocation is of a command bound in T,
//       with caller keys equal to a sequence bound to it;
//   (b) when the input starts with keys that the statement resolves without any dead key,
//       the first logged invocation is that command with those keys, and it does not happen
//       before its last key has arrived (no command on a proper prefix).

type c03LocalCase struct {
	local string
	t     c03Table
	input []string
}

var c03LocalEntry = map[string]struct {
	rc   string
	pre  []string
	comp bool
}{
	"vi-opp":      {rc: "set editing-mode vi\n", pre: []string{"xyz", "\x1b", "d"}},
	"vi-visual":   {rc: "set editing-mode vi\n", pre: []string{"xyz", "\x1b", "v"}},
	"menu-select": {rc: "", pre: []string{"f", "\t"}, comp: true},
}

func c03LocalJob(id int, cs c03LocalCase) harness.Job {
	en := c03LocalEntry[cs.local]
	cfg := harness.Config{RC: en.rc, W: 60, H: 12, Prompt: "$ ", NoHist: true, Replace: []string{cs.local}}
	if en.comp {
		cfg.Comps = &harness.CompSpec{Items: []harness.Comp{{Value: "foo"}, {Value: "fob"}, {Value: "fox"}}, ByWord: true}
	}
	names := map[string]bool{}
	for _, b := range cs.t {
		cfg.Binds = append(cfg.Binds, harness.BindSpec{Keymap: cs.local, Seq: b.Seq, Action: b.Cmd})
		if !names[b.Cmd] {
			names[b.Cmd] = true
			cfg.Probes = append(cfg.Probes, harness.Probe{Name: b.Cmd, Kind: "log"})
		}
	}
	ans := append(Keys(en.pre...), Keys(cs.input...)...)
	return harness.Job{ID: id, Cfg: cfg, Calls: [][]harness.Answer{ans}, Want: harness.Want{Obs: 2, From: len(en.pre)}}
}

func c03LocalVerdict(cs c03LocalCase, tr *harness.Trace) (fp, what string, nontrivial bool) {
	call := LastCall(tr)
	if call.Outcome != "aborted" {
		return "", "not judged (C01): " + call.Outcome + "@" + call.Site, false
	}
	en := c03LocalEntry[cs.local]
	// the local keymap must be active when the first key of the input is read
	if len(call.Waits) == 0 || call.Waits[0].Obs == nil || call.Waits[0].Obs.Local != cs.local {
		got := "?"
		if len(call.Waits) > 0 && call.Waits[0].Obs != nil {
			got = call.Waits[0].Obs.Local
		}
		return "", fmt.Sprintf("not judged: local keymap %q not active after the entry keys (is %q)", cs.local, got), false
	}
	desc := fmt.Sprintf("local keymap=%s table=%s input=%q", cs.local, cs.t, cs.input)
	var gs []string
	for _, e := range call.Log {
		gs = append(gs, fmt.Sprintf("%s(%q)@wait%d", e.Name, e.Caller, e.Wait))
	}
	for _, e := range call.Log {
		ok, boundCmd := false, false
		for _, b := range cs.t {
			if b.Cmd == e.Name {
				boundCmd = true
				if b.Seq == e.Caller {
					ok = true
				}
			}
		}
		if !boundCmd {
			return "runs-unbound-command/local", fmt.Sprintf("%s: %s ran, which is bound to nothing", desc, e.Name), true
		}
		if !ok {
			return "command-run-with-keys-of-another-sequence/local", fmt.Sprintf("%s: %s ran with caller keys %q, which are not a sequence bound to it (log: %v)", desc, e.Name, e.Caller, gs), true
		}
	}
	// the first token according to the statement
	for k := 1; k <= len(cs.input); k++ {
		want, dead, _, fx := c03ModelOpt(cs.t, cs.input[:k], true)
		if fx == -99 || dead {
			return "", "", false
		}
		if len(want) == 0 {
			continue
		}
		// the model fires after typed key k (index k-1): the invocation must be logged, first, and
		// at the wait that follows that key - not earlier
		nontrivial = true
		if len(call.Log) == 0 {
			return "bound-sequence-does-not-run/local", fmt.Sprintf("%s: after %q the command %s must have run; nothing ran", desc, cs.input[:k], want[0].Cmd), true
		}
		e := call.Log[0]
		if e.Name != want[0].Cmd || e.Caller != want[0].Caller {
			return "wrong-command-runs/local", fmt.Sprintf("%s: after %q the command %s(%q) must run first; log: %v", desc, cs.input[:k], want[0].Cmd, want[0].Caller, gs), true
		}
		at := len(en.pre) + k // wait index following typed key k
		if e.Wait < at {
			return "command-runs-on-a-proper-prefix/local", fmt.Sprintf("%s: %s ran before its last key arrived (wait %d, its last key is consumed at wait %d); log: %v", desc, e.Name, e.Wait, at-1, gs), true
		}
		if e.Wait > at {
			return "command-runs-late/local", fmt.Sprintf("%s: %s must have run once key #%d had arrived; it ran at wait %d (expected %d); log: %v", desc, e.Name, k, e.Wait, at, gs), true
		}
		return "", "", true
	}
	return "", "", false
}

func runC03Local(c *Ctx) {
	keys := []string{"a", "b", "\x18"}
	seqs := c03Sequences(keys, 2)
	maxIn := 3
	if !c.Quick() {
		maxIn = 4
	}
	var inputs [][]string
	var rec func(p []string, d int)
	rec = func(p []string, d int) {
		if len(p) > 0 {
			inputs = append(inputs, append([]string{}, p...))
		}
		if d == maxIn {
			return
		}
		for _, k := range keys {
			rec(append(p, k), d+1)
		}
	}
	rec(nil, 0)
	var tables []c03Table
	for i, s1 := range seqs {
		tables = append(tables, c03Table{{Seq: s1, Cmd: "p1"}})
		for j, s2 := range seqs {
			if j > i {
				tables = append(tables, c03Table{{Seq: s1, Cmd: "p1"}, {Seq: s2, Cmd: "p2"}})
			}
		}
	}
	var cases []c03LocalCase
	for _, local := range []string{"vi-opp", "vi-visual", "menu-select"} {
		for _, t := range tables {
			for _, in := range inputs {
				cases = append(cases, c03LocalCase{local, t, in})
			}
		}
	}
	c.Bounds["local_keymaps"] = map[string]any{"keymaps": []string{"vi-opp", "vi-visual", "menu-select"}, "tables": len(tables), "inputs": len(inputs), "cases": len(cases)}
	next := 0
	gen := func() (harness.Job, bool) {
		if next >= len(cases) || (next%8192 == 0 && c.Expired()) {
			return harness.Job{}, false
		}
		j := c03LocalJob(next, cases[next])
		next++
		return j, true
	}
	c.Pool.Stream(gen, func(j *harness.Job, t *harness.Trace) {
		cs := cases[j.ID]
		c.Evaluations++
		c.Traces++
		c.Transitions += int64(len(cs.input))
		if t.Err != "" {
			c.HarnessError(t.Err)
			return
		}
		fp, what, non := c03LocalVerdict(cs, t)
		if non {
			c.NontrivialN++
		}
		if fp == "" {
			if strings.HasPrefix(what, "not judged") {
				k := strings.SplitN(what, "@", 2)[0]
				c.Outcome("local/" + k)
				if c.Outcomes["local/"+k] == 1 {
					c.Sample(map[string]any{"not_judged": what, "case": fmt.Sprintf("%s %s %q", cs.local, cs.t, cs.input)})
				}
			} else {
				c.Outcome("local/ok")
			}
			return
		}
		c.Outcome(fp)
		if cd, ok := c.cands[fp]; ok {
			cd.count++
			return
		}
		jj := *j
		csc := cs
		c.Violate(Witness{Fingerprint: fp, What: what, Engine: "session", Job: &jj, Input: jsonRaw(map[string]any{"Local": cs.local, "Table": cs.t, "Input": cs.input})}, func() string {
			f, _, _ := c03LocalVerdict(csc, c.Pool.RunOne(&jj))
			return f
		})
	})
	if next < len(cases) {
		c.Cap(fmt.Sprintf("internal deadline: %d of %d local-keymap cases run", next, len(cases)))
	}
}
