package checks

import (
	"encoding/json"
	"fmt"
	"os"
	"sort"
	"strings"
	"time"

	"verif/internal/harness"
)

// C20 — resizes and async prints never break an edit in progress (Engine B).
//
// The library is rebuilt from the current tree with every synchronisation / channel /
// goroutine / signal / terminal-write / terminal-read operation routed through a
// cooperative scheduler (cmd/instrument + rt/). For each scenario (key script,
// disturbance budget) ALL schedules with at most P preemptions are enumerated, iterating
// P = 0, 1, 2...: a disturbance delivery (SIGWINCH + new terminal size, start of a
// concurrent Shell.Printf) or a switch away from a thread that could continue costs 1.
// Every execution runs the real Readline loop, the real resize watcher and the real Printf
// on a virtual terminal (the harness' emulator answers cursor-position queries at once).
//
// Oracle per complete schedule: no panic in any thread; no deadlock (nothing enabled
// before Readline returned) and no thread left parked after it returned; the returned
// (line, err) equal those of the disturbance-free schedule; when all disturbances had
// completed before the last ordinary key, the screen oracle of C04 holds at the last wait.

type c20Scenario struct {
	name   string
	rc     string
	w, w2  int
	script []string
	comps  []string
	multi  bool
}

type c20Budget struct {
	name          string
	winch, printf int
}

type c20Spec struct {
	W, H, W2  int
	Prompt    string
	Script    [][]byte
	Comps     []string
	Winch     int
	Printf    int
	TypeAhead bool
	Choices   []int
	Multiline bool
	Trace     bool
}

type c20Decision struct {
	Enabled    []string
	Chosen     int
	CurEnabled bool
	Cost       int
}

type c20Result struct {
	Outcome          string
	Line, Err        string
	Decisions        []c20Decision
	Deadlock         string
	Blocked          []string
	Failure          string
	Panic            string
	ScreenJudged     bool
	ScreenVerdict    string
	LastWaitLine     string
	DisturbancesDone bool
	Screen           []string
	Log              []string
	Overlaps         []string
	ReportFate       map[string]string
}

func c20Job(id int, sc c20Scenario, b c20Budget, choices []int, typeAhead bool) harness.Job {
	spec := c20Spec{W: sc.w, H: 12, W2: sc.w2, Prompt: "$ ", Comps: sc.comps, Winch: b.winch, Printf: b.printf, Choices: choices, TypeAhead: typeAhead, Multiline: sc.multi}
	for _, k := range sc.script {
		spec.Script = append(spec.Script, []byte(k))
	}
	raw, _ := json.Marshal(&spec)
	return harness.Job{ID: id, Cfg: harness.Config{RC: sc.rc}, Sched: raw}
}

func altCost(d c20Decision, j int) int {
	name := d.Enabled[j]
	if strings.HasPrefix(name, "env:") {
		if name == "env:user-chunk" {
			return 0
		}
		return 1
	}
	if d.CurEnabled && j != 0 {
		return 1
	}
	return 0
}

// normDeadlock turns a deadlock description into a narrow fingerprint: thread roles and
// blocking sites, without thread numbers.
func normDeadlock(s string) string {
	parts := strings.Split(s, ", ")
	var out []string
	for _, p := range parts {
		if strings.HasSuffix(p, ":done") {
			continue
		}
		name, rest, _ := strings.Cut(p, "@")
		role := name
		switch {
		case name == "main":
		case strings.HasPrefix(name, "printf"):
			role = "printf"
		case strings.HasPrefix(name, "t"):
			role = "watcher"
		}
		out = append(out, role+"@"+rest)
	}
	sort.Strings(out) // thread numbering is an accident of the schedule
	return strings.Join(out, ",")
}

// c20Role maps a thread name of one execution to its role.
func c20Role(name string) string {
	switch {
	case name == "main":
		return "main"
	case strings.HasPrefix(name, "printf"):
		return "printf"
	case strings.HasPrefix(name, "t"):
		return "watcher"
	}
	return name
}

// c20Site turns "t1:select@display.WatchResize.func1.1" into "watcher@display.WatchResize.func1.1:select".
func c20Site(e string) string {
	name, rest, _ := strings.Cut(e, ":")
	kind, where, _ := strings.Cut(rest, "@")
	return c20Role(name) + "@" + where + ":" + kind
}

// c20Preemptions lists the switches away from a thread that could have continued: the
// call sites that identify WHERE the missing synchronisation was exercised.
func c20Preemptions(r *c20Result) []string {
	var out []string
	for _, d := range r.Decisions {
		if d.CurEnabled && d.Chosen != 0 && d.Chosen < len(d.Enabled) && !strings.HasPrefix(d.Enabled[d.Chosen], "env:") {
			out = append(out, c20Site(d.Enabled[0])+"=>"+c20Role(strings.SplitN(d.Enabled[d.Chosen], ":", 2)[0]))
		}
	}
	return out
}

func c20Verdict(base *c20Result, r *c20Result) (fp, what string) {
	fp, what = c20Verdict0(base, r)
	if fp != "" && len(r.Overlaps) > 0 {
		// the root cause class of the recorded findings: a redisplay by the resize handler /
		// Printf overlapped with main-loop work (or with one another); the library has no
		// synchronisation for that. Violations in schedules without any overlap carry no suffix.
		fp += " | first overlap " + r.Overlaps[0]
		what += "; overlapping activities: " + strings.Join(r.Overlaps, ",") + " (preemptions: " + strings.Join(c20Preemptions(r), " ") + ")"
	}
	return fp, what
}

// c20Fates says, for every thread parked in GetCursorPos, what became of the answer to its
// cursor-position query: the causal part of the fingerprint of a hang.
func c20Fates(r *c20Result, parked []string) string {
	var out []string
	for _, p := range parked {
		name, rest, _ := strings.Cut(p, "@")
		if !strings.Contains(rest, "GetCursorPos") {
			continue
		}
		fate, ok := r.ReportFate[name]
		if !ok {
			fate = "no query"
		}
		out = append(out, c20Role(name)+"'s report "+fate)
	}
	if len(out) == 0 {
		return ""
	}
	sort.Strings(out)
	return " [" + strings.Join(out, "; ") + "]"
}

func c20Verdict0(base *c20Result, r *c20Result) (fp, what string) {
	switch r.Outcome {
	case "harness-failure":
		return "", "harness: " + r.Failure
	case "panic":
		return "panic/" + sanitize(panicKind(r.Panic)), "panic: " + r.Panic
	case "deadlock":
		return "deadlock{" + normDeadlock(r.Deadlock) + "}" + c20Fates(r, strings.Split(r.Deadlock, ", ")), "deadlock: nothing can run before Readline has returned: " + r.Deadlock
	}
	if len(r.Blocked) > 0 {
		var roles []string
		for _, b := range r.Blocked {
			roles = append(roles, normDeadlock(b))
		}
		sort.Strings(roles)
		return "thread-left-blocked-after-return{" + strings.Join(roles, ",") + "}" + c20Fates(r, r.Blocked), fmt.Sprintf("Readline returned %q but these threads are still parked for ever: %v", r.Line, r.Blocked)
	}
	if base != nil && (r.Line != base.Line || r.Err != base.Err) {
		return "result-differs-from-undisturbed-run", fmt.Sprintf("Readline returned (%q, %q), the same keys without disturbance give (%q, %q)", r.Line, r.Err, base.Line, base.Err)
	}
	if r.ScreenJudged && r.DisturbancesDone && r.ScreenVerdict != "" {
		cls := r.ScreenVerdict
		if i := strings.Index(cls, ":"); i > 0 {
			cls = cls[:i]
		}
		return "screen-inconsistent-after-redisplay/" + cls, fmt.Sprintf("all disturbances had completed before the last key, yet at the last wait (buffer %q) the screen oracle says: %s; screen: %q", r.LastWaitLine, r.ScreenVerdict, r.Screen)
	}
	return "", ""
}

func init() {
	Register(&Check{ID: "C20", Level: "model_checking", Run: runC20, Replay: func(c *Ctx, w *Witness) (string, string) {
		t := c.Pool.RunOne(w.Job)
		var r c20Result
		json.Unmarshal(t.Sched, &r)
		// the same schedule once more with the execution log on
		var logged c20Result
		{
			var spec c20Spec
			json.Unmarshal(w.Job.Sched, &spec)
			spec.Trace = true
			raw, _ := json.Marshal(&spec)
			j := *w.Job
			j.Sched = raw
			json.Unmarshal(c.Pool.RunOne(&j).Sched, &logged)
		}
		var base *c20Result
		if len(w.Jobs) > 0 {
			tb := c.Pool.RunOne(&w.Jobs[0])
			base = &c20Result{}
			json.Unmarshal(tb.Sched, base)
		}
		fp, what := c20Verdict(base, &r)
		var sb strings.Builder
		for i, d := range r.Decisions {
			if d.Chosen != 0 {
				fmt.Fprintf(&sb, "  #%d chose %s of %v\n", i, d.Enabled[d.Chosen], d.Enabled)
			}
		}
		sb.WriteString("all decisions (the running thread comes first when it can continue):\n")
		for i, d := range r.Decisions {
			fmt.Fprintf(&sb, "  #%d %v -> %d\n", i, d.Enabled, d.Chosen)
		}
		return fmt.Sprintf("outcome %s line=%q err=%q\n%s\nnon-default decisions:\n%sexecution log:\n  %s\n", r.Outcome, r.Line, r.Err, what, sb.String(), strings.Join(logged.Log, "\n  ")), fp
	}})
}

func runC20(c *Ctx) {
	quick := c.Quick()
	// bound(scenario, budget): quick = 1 everywhere, 2 for the first three scripts under the
	// single-disturbance budgets and for every budget of the first script; thorough = 2 everywhere, 3 for the single-disturbance budgets and
	// for every budget of the first three scripts, 4 for the first script under single disturbances.
	Pmax := 2
	bound := func(si, bi int) int {
		if quick {
			if (si < 3 && bi < 2) || si == 0 {
				return 2 // incl. two disturbances, each handled while the loop waits, for the first script
			}
			return 1
		}
		switch {
		case si == 0 && bi < 2:
			return 4
		case bi < 2, si < 3:
			return 3
		}
		return 2
	}
	if quick {
		c.Deadline = c.Start.Add(8 * time.Minute)
	} else {
		Pmax = 4
		c.Deadline = c.Start.Add(150 * time.Minute)
	}
	P := Pmax
	// is this the instrumented binary?
	{
		j := c20Job(0, c20Scenario{w: 40, script: []string{"\r"}}, c20Budget{}, nil, false)
		t := c.Pool.RunOne(&j)
		var r c20Result
		json.Unmarshal(t.Sched, &r)
		if r.Outcome == "harness-failure" {
			c.HarnessError("schedule engine not available: " + r.Failure + " (run through ./run.sh, which builds bin/vcheck-b)")
			return
		}
	}
	vi := "set editing-mode vi\n"
	scen := []c20Scenario{
		{name: "S1 emacs a b Enter", w: 40, w2: 20, script: []string{"a", "b", "\r"}},
		{name: "S2 a TAB TAB Enter (3 candidates)", w: 40, w2: 20, script: []string{"a", "\t", "\t", "\r"}, comps: []string{"aa", "ab", "ac"}},
		{name: "S3 vi a ESC f a Enter", rc: vi, w: 40, w2: 20, script: []string{"a", "\x1b", "f", "a", "\r"}},
		{name: "S4 M-2 hint", w: 40, w2: 20, script: []string{"a", "\x1b2", "b", "\r"}},
		{name: "S5 two-line buffer (backslash continuation)", w: 40, w2: 20, script: []string{"a\\", "\r", "b", "\r"}, multi: true},
		{name: "S6 wrapped at 8 columns", w: 8, w2: 12, script: []string{"abcdefgh", "i", "\r"}},
		// cycling through a menu of two tagged groups, each with described and undescribed values: a
		// resize between any two TABs regenerates the grid and must keep the place in the cycle
		{name: "S7 a TAB x5 Enter (two tags, partly described)", w: 40, w2: 20, script: []string{"a", "\t", "\t", "\t", "\t", "\t", "\r"},
			comps: []string{"apple|red|fruits", "apricot||fruits", "avocado||fruits", "ant||animals", "ape|primate|animals", "asp||animals"}},
	}
	budgets := []c20Budget{{"1 SIGWINCH", 1, 0}, {"1 Printf", 0, 1}, {"2 SIGWINCH", 2, 0}, {"1 SIGWINCH + 1 Printf", 1, 1}}
	c.Rule = fmt.Sprintf("for %d scenarios x %d disturbance budgets, all schedules with <= P deviations, P up to %d (per scenario/budget, listed under extra.bounds) (a SIGWINCH delivery with a size change, the start of a concurrent Printf, or a switch away from a runnable thread costs 1; free choices among threads when the running one blocks are always explored) of the real Readline loop + resize watcher + Printf under a cooperative scheduler, user chunks delivered at quiescence. state = scheduling point; transition = one scheduled operation. non-trivial = distinct complete schedules containing at least one disturbance", len(scen), len(budgets), P)
	c.Assumptions = []string{"accesses between two scheduling points execute atomically (no word-level tearing / memory-model effects); a free-running -race pass would be auxiliary only", "the terminal answers cursor-position queries immediately", "the instrumentation is syntactic (cmd/instrument) and covers sync, channels, go, select, signal.Notify, fmt.Print*, os.Stdin/os.Stderr of internal/core"}
	c.Bounds = map[string]any{"preemption_bound_max": P, "scenarios": len(scen), "budgets": len(budgets)}
	perScenario := map[string]any{}
	// a node is a schedule prefix: the decisions of the parent execution up to i, then alt.
	// The parent's decision list is shared by all its children (memory stays bounded: the
	// exploration is depth-first in chunks, not level by level).
	type node struct {
		base   []int32
		i, alt int
		cost   int
	}
	prefixOf := func(n node) []int {
		if n.i < 0 {
			return nil
		}
		ch := make([]int, n.i+1)
		for k := 0; k < n.i; k++ {
			ch[k] = int(n.base[k])
		}
		ch[n.i] = n.alt
		return ch
	}
	const chunk = 4096
	perBound := map[int]int64{}
	conformanceRuns, conformanceOK := 0, 0
	only := os.Getenv("VERIF_C20_ONLY") // development: explore the scenarios whose name starts with this
	for si, sc := range scen {
		if only != "" && !strings.HasPrefix(sc.name, only) {
			continue
		}
		for bi, b := range budgets {
			if c.Expired() {
				c.Cap("internal deadline: " + sc.name + " / " + b.name + " not explored")
				continue
			}
			// the disturbance-free schedule of this script
			var base c20Result
			{
				j := c20Job(0, sc, c20Budget{}, nil, false)
				t := c.Pool.RunOne(&j)
				json.Unmarshal(t.Sched, &base)
				c.Evaluations++
				if base.Outcome != "returned" {
					fp, what := c20Verdict(nil, &base)
					if fp == "" {
						c.HarnessError(sc.name + ": " + what)
						continue
					}
					jj := j
					c.Violate(Witness{Fingerprint: fp, Engine: "sched", Job: &jj, What: fmt.Sprintf("[%s, no disturbance] %s", sc.name, what)}, nil)
					continue
				}
			}
			// conformance of the scheduler's operations with the real ones: the same script through
			// the session engine of THIS binary (no scheduler attached: every wrapper is the real
			// mutex / channel / goroutine / write / read) must give the same line and the same
			// screen at the last wait as the undisturbed schedule
			if bi == 0 {
				conformanceRuns++
				ja := harness.Job{Cfg: harness.Config{RC: sc.rc, W: sc.w, H: 12, Prompt: "$ ", NoHist: true}, Want: harness.Want{Obs: 2, Screen: 2}}
				if len(sc.comps) > 0 {
					cs := &harness.CompSpec{ByWord: true}
					for _, v := range sc.comps {
						parts := strings.SplitN(v, "|", 3)
						it := harness.Comp{Value: parts[0]}
						if len(parts) > 1 {
							it.Desc = parts[1]
						}
						if len(parts) > 2 {
							it.Tag = parts[2]
						}
						cs.Items = append(cs.Items, it)
					}
					ja.Cfg.Comps = cs
				}
				if sc.multi {
					ja.Cfg.Multiline = "backslash"
				}
				ja.Calls = [][]harness.Answer{Keys(sc.script...)}
				ta := c.Pool.RunOne(&ja)
				ca := LastCall(ta)
				var scrA []string
				if n := len(ca.Waits); n > 0 && ca.Waits[n-1].Screen != nil {
					scrA = ca.Waits[n-1].Screen.Lines
				}
				trim := func(l []string) string {
					for len(l) > 0 && strings.TrimSpace(l[len(l)-1]) == "" {
						l = l[:len(l)-1]
					}
					return strings.Join(l, "\n")
				}
				if ca.Outcome != "returned" || ca.Line != base.Line || trim(scrA) != trim(base.Screen) {
					c.HarnessError(fmt.Sprintf("%s: the scheduler-driven undisturbed run and the free-running session run differ: line %q / %q (%s), screen at the last wait %q / %q", sc.name, base.Line, ca.Line, ca.Outcome, base.Screen, scrA))
				} else {
					conformanceOK++
				}
			}
			P := bound(si, bi)
			stack := []node{{nil, -1, 0, 0}}
			maxStack := 0
			for len(stack) > 0 {
				if c.Expired() {
					c.Cap(fmt.Sprintf("internal deadline: %s / %s: not all schedules with <= %d deviations explored (%d prefixes pending)", sc.name, b.name, P, len(stack)))
					break
				}
				if len(stack) > maxStack {
					maxStack = len(stack)
				}
				k := len(stack) - chunk
				if k < 0 {
					k = 0
				}
				level := append([]node(nil), stack[k:]...)
				stack = stack[:k]
				jobs := make([]harness.Job, len(level))
				for i, n := range level {
					jobs[i] = c20Job(i, sc, b, prefixOf(n), false)
				}
				var next []node
				c.Pool.Map(jobs, func(j *harness.Job, t *harness.Trace) {
					n := level[j.ID]
					c.Evaluations++
					c.Traces++
					if t.Err != "" {
						c.HarnessError(t.Err)
						return
					}
					var r c20Result
					if err := json.Unmarshal(t.Sched, &r); err != nil {
						c.HarnessError("bad result: " + err.Error())
						return
					}
					c.States += int64(len(r.Decisions))
					c.Transitions += int64(len(r.Decisions))
					disturbed := false
					total := 0
					for _, d := range r.Decisions {
						if d.Chosen < len(d.Enabled) && strings.HasPrefix(d.Enabled[d.Chosen], "env:") && d.Enabled[d.Chosen] != "env:user-chunk" {
							disturbed = true
						}
						total += altCost(d, d.Chosen)
					}
					perBound[total]++
					if disturbed {
						c.NontrivialN++
					}
					fp, what := c20Verdict(&base, &r)
					if strings.HasPrefix(what, "harness:") {
						c.HarnessError(sc.name + ": " + what)
						return
					}
					if fp != "" {
						c.Outcome(fp)
						if cd, ok := c.cands[fp]; ok {
							cd.count++
						} else {
							jj := *j
							jb := c20Job(0, sc, c20Budget{}, nil, false)
							var sb strings.Builder
							for i, d := range r.Decisions {
								if d.Chosen != 0 {
									fmt.Fprintf(&sb, " #%d->%s", i, d.Enabled[d.Chosen])
								}
							}
							c.Violate(Witness{Fingerprint: fp, Engine: "sched", Job: &jj, Jobs: []harness.Job{jb},
								What: fmt.Sprintf("[%s, budget %s, %d preemption(s)] %s; non-default choices:%s", sc.name, b.name, total, what, sb.String())}, func() string {
								var r2, b2 c20Result
								json.Unmarshal(c.Pool.RunOne(&jj).Sched, &r2)
								json.Unmarshal(c.Pool.RunOne(&jb).Sched, &b2)
								f, _ := c20Verdict(&b2, &r2)
								return f
							})
						}
					} else {
						c.Outcome("ok/" + r.Outcome)
					}
					if c.Evaluations%2003 == 5 {
						c.Sample(map[string]any{"scenario": sc.name, "budget": b.name, "deviation_at": n.i, "decisions": len(r.Decisions), "outcome": r.Outcome, "line": r.Line})
					}
					// branch on every later alternative within the bound
					cost := 0
					var chosen []int32
					for i, d := range r.Decisions {
						if i > n.i {
							for alt := 1; alt < len(d.Enabled); alt++ {
								if cost+altCost(d, alt) <= P {
									if chosen == nil {
										chosen = make([]int32, len(r.Decisions))
										for k := range r.Decisions {
											chosen[k] = int32(r.Decisions[k].Chosen)
										}
									}
									next = append(next, node{chosen, i, alt, cost + altCost(d, alt)})
								}
							}
						}
						cost += altCost(d, d.Chosen)
					}
				})
				stack = append(stack, next...)
			}
			perScenario[sc.name+" / "+b.name] = map[string]any{"bound": P, "schedules_so_far": c.Evaluations}
		}
	}
	c.Extra = map[string]any{"schedules_by_total_cost": perBound, "bounds": perScenario,
		"scheduler_vs_free_running_conformance": fmt.Sprintf("%d of %d scripts: identical returned line and identical screen at the last wait between the undisturbed scheduled execution and the free-running session engine of the same binary", conformanceOK, conformanceRuns)}
}
