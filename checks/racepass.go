package checks

import (
	"fmt"

	"verif/internal/harness"
)

// RACEPASS is NOT a property check and is not registered in MANIFEST.json: it is the auxiliary
// free-running pass that the cooperative scheduler of C20 cannot replace (its hand-offs are
// happens-before edges, so a race detector sees nothing under it). tools/race_pass.sh builds
// vcheck with -race and runs this: the C20 scripts with real SIGWINCH bursts and real concurrent
// Printf goroutines; the Go race detector writes its reports to files (GORACE=log_path=...),
// which the script summarises. Sampling; informational only.
func init() {
	Register(&Check{ID: "RACEPASS", Level: "other", Run: func(c *Ctx) {
		scripts := [][]string{{"a", "b", "\r"}, {"a", "\t", "\t", "\r"}, {"a", "\x1b2", "b", "\r"}, {"abcdefghijklmnopqrstuvwxyzabcdefghijklmnopqrstuvwxyz", "i", "\r"}}
		var jobs []harness.Job
		for rep := 0; rep < 40; rep++ {
			for si, sc := range scripts {
				j := harness.Job{ID: len(jobs), Cfg: harness.Config{W: 40, H: 12, Prompt: "$ ", NoHist: true}, Calls: [][]harness.Answer{Keys(sc...)},
					Free: &harness.FreeSpec{Winch: 6, Printf: 6, EveryMicros: 150 + 37*rep}}
				if si == 1 {
					j.Cfg.Comps = &harness.CompSpec{Items: []harness.Comp{{Value: "aa"}, {Value: "ab"}, {Value: "ac"}}, ByWord: true}
				}
				jobs = append(jobs, j)
			}
		}
		outcomes := map[string]int{}
		c.Pool.Map(jobs, func(j *harness.Job, t *harness.Trace) {
			c.Evaluations++
			outcomes[LastCall(t).Outcome]++
			if call := LastCall(t); call.Outcome == "panic" {
				fmt.Printf("race pass: panic %q at %s (script %q, period %d us)\n%s\n", call.Err, call.Site, ShowKeys(j.Calls[0]), j.Free.EveryMicros, call.Stack)
			}
		})
		fmt.Printf("race pass: %d free-running executions, outcomes %v (hangs here are the known C20 findings)\n", len(jobs), outcomes)
	}})
}
