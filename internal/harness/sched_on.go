//go:build verifsched

package harness

import (
	"encoding/json"

	"github.com/reeflective/readline"
)

// runSched runs one execution under the cooperative scheduler compiled into the
// instrumented library (see rt/ and cmd/instrument).
func runSched(spec json.RawMessage, master int) json.RawMessage {
	var m map[string]any
	json.Unmarshal(spec, &m)
	m["MasterFD"] = master
	b, _ := json.Marshal(m)
	return readline.VerifSchedRun(b)
}
