package checks

import (
	"fmt"
	"os"
	"strings"

	"verif/internal/harness"
)

// DBG: vcheck DBG quick with VERIF_DBG_RC and VERIF_DBG_KEYS (space separated, Go-quoted escapes)
func init() {
	Register(&Check{ID: "DBG", Level: "other", Run: func(c *Ctx) {
		rc := strings.ReplaceAll(os.Getenv("VERIF_DBG_RC"), `\n`, "\n")
		if km := os.Getenv("VERIF_DBG_ALLBOUND"); km != "" {
			r, acts := allBoundRC(km)
			rc += r
			for _, a := range acts {
				fmt.Fprintf(os.Stderr, "%s=%q ", a.Name, a.Ans[0].Bytes)
			}
			fmt.Fprintln(os.Stderr)
		}
		var ans []harness.Answer
		for _, k := range strings.Split(os.Getenv("VERIF_DBG_KEYS"), " ") {
			if k == "" {
				continue
			}
			var s string
			fmt.Sscanf(`"`+k+`"`, "%q", &s)
			ans = append(ans, Key(s))
		}
		cfg := harness.Config{RC: rc, W: 40, H: 10, Prompt: "> ", Hist: []harness.HistSpec{{Kind: "default", Lines: strings.Split(os.Getenv("VERIF_DBG_HIST"), "|")}}}
		if os.Getenv("VERIF_DBG_HIST") == "" {
			cfg.Hist = nil
		}
		if os.Getenv("VERIF_DBG_COMPS") != "" {
			cs := &harness.CompSpec{}
			for _, v := range strings.Split(os.Getenv("VERIF_DBG_COMPS"), "|") {
				cs.Items = append(cs.Items, harness.Comp{Value: v})
			}
			cfg.Comps = cs
		}
		if w := os.Getenv("VERIF_DBG_W"); w != "" {
			fmt.Sscan(w, &cfg.W)
		}
		if p := os.Getenv("VERIF_DBG_PROMPT"); p != "" {
			cfg.Prompt = p
		}
		cfg.Multiline = os.Getenv("VERIF_DBG_MULTILINE")
		if os.Getenv("VERIF_DBG_PRE") != "" {
			cfg.PreOutput = "earlier\r\noutput\r\n\r\n"
		}
		j := harness.Job{Cfg: cfg, Calls: [][]harness.Answer{ans}, Want: harness.Want{Obs: 2, Screen: 2, ScreenCheck: true}}
		t := c.Pool.RunOne(&j)
		call := LastCall(t)
		for i, w := range call.Waits {
			o := w.Obs
			k := "<end>"
			if i < len(ans) {
				k = fmt.Sprintf("%q", ans[i].Bytes)
			}
			fmt.Printf("wait %d [%s] line=%q pos=%d mark=%d sel=%v[%d,%d] main=%s local=%s iter=%v kill=%q hint=%q rec=%v  -> %s\n", i, o.Kind, o.Line, o.Pos, o.Mark, o.SelOn, o.SelB, o.SelE, o.Main, o.Local, o.IterSet, o.Kill, o.Hint, o.MacroRec, k)
			if w.ScreenVerdict != "" {
				fmt.Printf("      SCREEN: %s\n", w.ScreenVerdict)
			}
			if os.Getenv("VERIF_DBG_SCREEN") != "" && w.Screen != nil {
				for y, l := range w.Screen.Lines {
					fmt.Printf("      |%s|%d\n", l, y)
				}
				fmt.Printf("      cursor=(%d,%d)\n", w.Screen.CY, w.Screen.CX)
			}
		}
		fmt.Printf("outcome=%s line=%q err=%q site=%s\n%s\n", call.Outcome, call.Line, call.Err, call.Site, call.Stack)
		c.Evaluations = 1
	}})
}
