#!/bin/sh
# usage: ./mutant_test.sh <patch.diff> <CHECK-ID> [tier]
# Applies a seeded change to /repo, runs the repository's own tests (must pass), runs one check
# (expected: exit 1 + VIOLATION), and always undoes the change.
set -u
P="$1"; ID="$2"; TIER="${3:-quick}"
cd /repo || exit 2
if ! git diff --quiet || ! git diff --cached --quiet; then echo "/repo has uncommitted changes"; exit 2; fi
if ! git apply --check "$P" 2>/dev/null; then
  if git apply --3way --check "$P" 2>/dev/null; then MODE=--3way; else echo "PATCH DOES NOT APPLY: $P"; exit 3; fi
else MODE=""; fi
git apply $MODE "$P" || { git reset -q --hard HEAD; echo "PATCH DOES NOT APPLY CLEANLY: $P"; exit 3; }
if [ -n "$(git diff --name-only --diff-filter=U)" ]; then git reset -q --hard HEAD; echo "PATCH CONFLICTS WITH THE CURRENT TREE: $P"; exit 3; fi
export GOFLAGS=-mod=mod GOPROXY=off
if go build ./... >/tmp/mt-build.log 2>&1 && go test -vet=off -count=1 ./... >/tmp/mt-test.log 2>&1; then echo "repo tests: PASS (mutant is realistic)"; else echo "repo tests: FAIL (mutant rejected)"; tail -5 /tmp/mt-test.log; fi
cd /verif
VERIF_ROOT=/verif/.scratch/mutant-root
rm -rf $VERIF_ROOT; mkdir -p $VERIF_ROOT; cp known_findings.json $VERIF_ROOT/
VERIF_ROOT=$VERIF_ROOT ./run.sh "$ID" "$TIER" > /tmp/mt-check.log 2>&1
RC=$?
grep -E "^VIOLATION|^KNOWN-FINDING|^INCONCLUSIVE|^  fingerprint|quick:|thorough:" /tmp/mt-check.log | cut -c1-220 | head -12
echo "check exit=$RC"
rm -rf $VERIF_ROOT
git -C /repo reset -q --hard HEAD && git -C /repo status --short | head -3
exit 0
