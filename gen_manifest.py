#!/usr/bin/env python3
"""Regenerates MANIFEST.json from the table below (kept in one place so it stays valid)."""
import json, subprocess
checks = {
 "C02": dict(level="exploration", technique="bounded exhaustive enumeration of typed strings x modes x meta settings x delivery on the real Readline loop (session engine over a pty)",
   text="Every string up to the stated length over a 16-rune alphabet covering ASCII, Latin-1, BMP, CJK wide, combining and astral runes is typed into the real Readline loop in emacs and vi-insert mode under three meta settings and two deliveries; the returned line must equal the typed text and every intermediate buffer must be a prefix of it. Exhaustive within the bound; nothing is sampled.",
   note="Trusts the harness pty/gate (keys are delivered exactly as planned) and scopes non-ASCII to convert-meta off (Latin-1 to output-meta on) as the statement does.", ref="7 C02"),
}
na = {
}
ALL = ["C%02d" % i for i in range(1, 21)]
def build():
    for k in ALL:
        if k not in checks and k not in na:
            na[k] = "not claimed yet: its check is still under construction in this tree (see DESIGN.md section 7 for the planned bounded-exhaustive formulation)"
    m = {
     "version": 1,
     "setup_cmd": "./setup.sh",
     "hooks": {
       "guard": "verif",
       "enable": "go build -tags verif (module /verif with `replace github.com/reeflective/readline => /repo`); the only hook is /repo/verif_hooks.go (VerifSetStdin); the schedule engine additionally uses a generated -overlay, never committed",
       "baseline_off_cmd": "cd /repo && GOFLAGS=-mod=mod GOPROXY=off go test -vet=off -count=1 ./...",
       "source_commits": subprocess.run(["git","-C","/repo","log","--format=%h","--grep=^verif:"],capture_output=True,text=True).stdout.split(),
       "add_only": True,
     },
     "engines": [
       {"name":"session","path":"internal/harness","serves_properties":sorted(k for k in checks),"kind_free_text":"real library over a harness-owned pty; gated key reader; VT emulator answers cursor queries; explicit-state BFS / bounded products / deviation enumeration over executions"},
     ],
     "checks": [],
     "not_applicable": [{"property_id":k,"reason":v} for k,v in sorted(na.items())],
     "notes": "All checks: ./run.sh <ID> <tier> rebuilds bin/vcheck from /verif and /repo's working tree (build tag verif) and runs it; exit 0 = held, 1 = VIOLATION line printed, 2 = infrastructure error. known_findings.json lists fixed and known findings.",
    }
    for k in sorted(checks):
        c = checks[k]
        m["checks"].append({
          "property_id": k,
          "quick_cmd": f"./run.sh {k} quick",
          "thorough_cmd": f"./run.sh {k} thorough",
          "evidence_file": f"/verif/evidence/{k}.json",
          "replay_cmd_template": "./run.sh replay {path}",
          "engine": c.get("engine","session"),
          "level_claimed": {"category": c["level"], "text": c["text"], "design_ref": c["ref"]},
          "level_note": c["note"],
          "technique": c["technique"],
        })
    json.dump(m, open("MANIFEST.json","w"), indent=1)
    print("checks:", len(m["checks"]), "n/a:", len(m["not_applicable"]))
if __name__ == "__main__":
    build()
