//go:build !verifsched

package harness

import "encoding/json"

// runSched is only available in the instrumented build (bin/vcheck-b).
func runSched(spec json.RawMessage, master int) json.RawMessage {
	return json.RawMessage(`{"Outcome":"harness-failure","Failure":"this binary was built without the schedule engine"}`)
}
