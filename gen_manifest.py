#!/usr/bin/env python3
"""Regenerates MANIFEST.json from the table below (kept in one place so it stays valid)."""
import json, subprocess
checks = {
 "C02": dict(level="exploration", technique="bounded exhaustive enumeration of typed strings x modes x meta settings x delivery on the real Readline loop (session engine over a pty)",
   text="Every string up to the stated length over a 16-rune alphabet covering ASCII, Latin-1, BMP, CJK wide, combining and astral runes is typed into the real Readline loop in emacs and vi-insert mode under three meta settings and two deliveries; the returned line must equal the typed text and every intermediate buffer must be a prefix of it. Exhaustive within the bound; nothing is sampled.",
   note="Trusts the harness pty/gate (keys are delivered exactly as planned) and scopes non-ASCII to convert-meta off (Latin-1 to output-meta on) as the statement does.", ref="7 C02"),
 "C01": dict(level="model_checking", technique="explicit-state BFS over the real Readline loop (reflective canonical state hash, replay-validated successors) + exhaustive fault-answer enumeration (EOF/EIO once/for ever) at every seed state",
   text="Breadth-first search from ~90 seed states (buffers x cursor x pending argument x emacs/vi-insert/vi-command/visual/operator-pending/isearch/non-incremental search/menu-select/macro recording/argument waits) over an alphabet derived from the configuration under test (every bound sequence of the main and local keymaps, every one of the 209 registered commands through a generated inputrc, data keys, unbound bytes), under 20 configuration variants, plus every registered command from every small planted (buffer, cursor) state, plus the four stdin fault answers in every seed state. Oracle: no panic, no fatal error, no hang, returns within 1000 reads on persistent EOF/error.",
   note="States are de-duplicated by a reflective dump of *Shell + emulator screen + termios; depth bounds and frontier caps are reported in the evidence; hangs use a 30 s no-progress watchdog only as backstop and are re-run 4 times before being reported.", ref="7 C01"),
 "C06": dict(level="model_checking", technique="explicit-state BFS over the real Readline loop with invariants evaluated at every wait through the public API; product of reached states x movement/copy commands x numeric arguments",
   text="The C01 search with the all-commands alphabet in emacs, vi-insert and vi-command, evaluating at every wait: 0 <= Cursor.Pos() <= len(Line()), on a character in vi command mode, active selection inside the buffer, returned line == buffer; and for 43 movement/copy commands (with argument keys) and vi-yank-to x 16 motions from every reached state incl. numeric-argument states: buffer text unchanged.",
   note="Cursor/selection getters are called on struct copies; movement clause judged outside minibuffers and only in the default configuration.", ref="7 C06"),
 "C08": dict(level="exploration", technique="full bounded product (text x prior contents x sources x history-size x accept variant x mode) on the real Readline loop against a per-source reference model",
   text="Every combination of 6 texts, 5 prior contents, 4 source configurations (default, harness, two harness, file+harness), 5 history-size settings, 8 accept variants and 2 modes is run through the real loop; contents of every source (and the Write-call log of harness sources) are compared with the reference model after every call. Multi-source cases are repeated 8/16 times.",
   note="history-size 0 accepts both outcomes; map order covered by repetition.", ref="7 C08"),
 "C16": dict(level="exploration", technique="bounded exhaustive product (all buffers <= L over 7 symbols x cursor x kill command x numeric argument, kill pairs, regions, vi x+P) on the real loop with a kill/yank law oracle",
   text="Every buffer up to length L over {a b space . \" newline é}, every cursor position, each of 10 kill commands by name with and without numeric argument 2, kill-region for every mark position, every ordered pair of kills, and vi x (count 1-3) + P: the removed text must be the kill buffer, yank must insert exactly it and restore the buffer.",
   note="State planted through a registered command using only Line().Set/Cursor().Set; vi line-wise registers not judged.", ref="7 C16"),
 "C07": dict(level="model_checking", technique="explicit-state BFS over edit/kill/yank/history-walk/undo/redo commands on the real loop (state key contains the undo stacks) + law probes executed in every reached state",
   text="BFS to depth 3 (thorough 4) over 15-23 commands in emacs and vi with and without history; in each of the reached states six law probes run as extra executions: undo until stable, undo^n redo^n (n=1..3), undo+edit+redo, undo+edit+undo. Every buffer produced by undo must have been shown before, repeated undo must reach the initial content, redo must invert undo for n up to the available steps, and a new edit must discard exactly the redo branch.",
   note="'for that line' approximated by all buffers shown earlier in the session plus history entries; no random tail beyond the depth bound.", ref="7 C07"),
 "C09": dict(level="model_checking", technique="explicit-state BFS per (history, source kind, in-progress text, cursor) over navigation/search commands on the real loop, against an exact list/index reference model and match-set membership",
   text="For 6 histories x 3 source kinds x 4 in-progress texts x 2 cursor positions, BFS over 14 navigation/search commands by name plus incremental-search sessions (pattern keys only inside the minibuffer), in emacs and vi-command. Exact model on navigation-only paths, documented match set for prefix/substring/incremental searches, no 'history error' hint, sources unchanged.",
   note="end-of-history may show the newest entry or the in-progress text; search string may be the text before point of the shown line or of the in-progress line.", ref="7 C09"),
 "C17": dict(level="exploration", technique="bounded exhaustive product (buffers x cursor x 35 motions/text objects x 4 count forms; visual v/V) with a two-execution differential oracle (y... vs d... from the identical planted state)",
   text="From every planted (buffer, cursor) state in vi command mode, y<motion> and d<motion> are executed separately: yank must leave the buffer unchanged, both must leave the same register text, and the original buffer must equal the buffer after delete with that text re-inserted.",
   note="Line-wise registers may differ by one trailing newline as documented.", ref="7 C17"),
 "C18": dict(level="exploration", technique="bounded exhaustive enumeration of key scripts (<= n keys over 20 emacs / 19 vi keys x 3 start buffers) with a differential oracle: typed twice vs recorded + replayed",
   text="For every script K: final (buffer, cursor) of K K typed must equal that of start-record K end-record replay, in the emacs style (C-x ( ... C-x ) C-x e) and the vi style (q a ... q @ a).",
   note="Scripts ending in a numeric argument are excluded (the argument would apply to different keys in the two executions). One known finding: a lone ESC followed by a key forming a bound ESC-sequence in vi macros.", ref="7 C18"),
 "C03": dict(level="model_checking", technique="exhaustive enumeration of bind tables x key strings on the real dispatcher (keymap replaced by a fresh map, logging probe commands) against a reference longest-match tokenizer model; every model trace replayed on the implementation",
   text="All tables of 1-2 bindings (thorough: + 3-binding chains) with sequences of length <= 2 over a 4-key alphabet per keymap (incl. ESC / glued ESC-a, a control key, meta-encoded storage, macros with bodies <= 2 keys) in emacs, vi-insert and vi-command, x all key strings of length <= 3 (4) delivered one key per read. The invocation log (command, Keys.Caller(), wait index) is compared with the model: soundness on every input, equality on inputs without dead keys, the shorter-binding rule up to the first dead key.",
   note="What becomes of keys consumed while ruling a longer binding out is not fixed by the statement (three-valued oracle). Local keymaps (vi-opp, visual, menu-select) are exercised by C01/C14/C17 with their default tables; replacing them is not done (they are process-global maps).", ref="7 C03"),
 "C05": dict(level="model_checking", technique="deviation-bounded enumeration of delivery plans (every read event of the library is a choice point: how many script bytes arrive, at key reads and at cursor-position-query reads) re-executing the real loop per plan; differential oracle against the default plan",
   text="For each script of a corpus (all emacs scripts of <= 2 (3) keys over a 12-17 key alphabet + longer hand-written emacs and vi scripts with macros, arguments, completion, search), all plans with <= 2 (3) deviations over a bounded per-event menu, plus whole-script-in-one-read and one-byte-per-read; (line, err) must equal those of the default plan and the call must return.",
   note="In vi modes plans that change a read boundary directly after ESC (or deliver the byte after a lone ESC during a cursor query) are excluded as the statement says. One known finding (emacs lone ESC with a menu/search active).", ref="7 C05"),
 "C14": dict(level="exploration", technique="bounded exhaustive product (buffers x cursor x candidate tables x menu key strings x modes x options) on the real loop with a framing oracle evaluated at every wait",
   text="11 buffers x every cursor position x 7 (12) candidate tables x key strings TAB + <= 2 of 14 menu keys x {emacs, vi-insert} (x 3 option sets thorough): while the menu is active the buffer must be B[:j] + X + B[c:] with X the typed word, a matching candidate or a common prefix; the transition closing the menu must keep the text before the word and after the cursor; C-c (emacs: C-g) in an active menu must restore buffer and cursor without returning.",
   note="The word being completed starts at or after the last blank before the cursor; accept-and-menu-complete restarts a completion unobservably and ends the judged part of a case.", ref="7 C14"),
 "C15": dict(level="exploration", technique="bounded exhaustive product (N x shapes x terminal sizes x key programs) on the real loop with a cycle oracle over the observed inserted words",
   text="Candidate sets of N in {1..12,16,17,25,36,37(,60)} values in 9 shapes (plain, varied length, described, aliased by shared description, tags, mixed, long, wide glyphs) x widths {20,40,80(,131)} x heights {10,24} x 5 key programs (forward 2N+1, backward 2N+1, forward N+k then backward N+k) x 2 buffers: every inserted word is a candidate, every window of N presses in one direction is duplicate-free, press N+1 equals press 1, N=1 is accepted at once.",
   note="Buffers are empty or a prefix shared by all candidates ('offered' means after the documented prefix filter).", ref="7 C15"),
 "C04": dict(level="model_checking", technique="explicit-state BFS over edit sequences on narrow terminals (state = reflective dump + emulator grid) with a screen oracle evaluated at every wait against an independent reference renderer; two erase-at-margin terminal models",
   text="BFS to depth 3-4 (thorough 4-5) over 19 edit/movement actions (narrow, wide and combining glyphs, TAB, newline, pastes of W-1/W/W+1 glyphs, deletes, kills, cursor and screen-line movements, clear-screen, transpose) on 6 (9) terminal/prompt scenarios (widths 8, 11, 20; empty, 2-, 5-column, coloured, two-line and W-1 prompts; thorough: 6-row terminal, numbered multiline column, autosuggestion). At every main-loop wait: every input cell shows the expected glyph, the rest of the input rows and the rows below are blank, the terminal cursor is on the buffer cursor's cell.",
   note="Terminal = the harness' xterm-compatible emulator (1345/1352 sessions identical to tmux 3.3a, the rest explained); an erase issued at a pending wrap is accepted under either common behaviour. Four known findings, identified by the geometry of the buffer.", ref="7 C04"),
 "C11": dict(level="exploration", technique="full bounded product of exit paths x modes x buffer shapes x cursor x width x prompt-transient on the real loop; termios compared on the pty, final cursor/row/cursor-style on the emulator",
   text="17 exit paths (accept variants, multi-line accept, insert-comment, C-c, abort, EOF commands, edit-and-execute with failing/keeping/appending editor, autosuggest-execute, stdin EOF and error, panic inside a user-registered command) x 4 modes x 9 buffer shapes (empty ... wrapped, multi-line, hint, menu, isearch) x 3 cursor positions x 2 widths x prompt-transient off/on: whenever the call ends, termios is unchanged, the cursor is at column 0 of a blank row strictly below every row that held input, and the last cursor style is the user default.",
   note="Input rows computed by the reference renderer anchored on the terminal cursor at each wait, adjusted for scrolling.", ref="7 C11"),
 "C10": dict(level="fault_enumeration", engine="pure", technique="exhaustive crash-point enumeration: every byte offset of an append truncated on a real file, reopen, append, reopen, against a list reference model",
   text="All write histories up to the stated length over a 15-line alphabet (quotes, newlines, controls, multi-byte, U+2028, >64 KiB, blank, duplicates, JSON look-alikes) are written through the real file-backed history; the file is reopened and compared with the reference list; then every byte offset of the last append (thorough: of every append) is used as a crash point: truncate, reopen, append through a fresh instance, reopen.",
   note="Crash model = a byte prefix of a single O_APPEND write survives; fsync/power-loss reordering is outside the statement. Offsets inside the 70000-byte record are a stated subset.", ref="7 C10"),
 "C12": dict(level="exploration", engine="pure", technique="bounded exhaustive enumeration of token strings x parser options x handler kinds x cyclic include graph on the real parser; count-based include budget",
   text="Every token string up to the stated length over a 38-token alphabet containing every lexical ingredient of the grammar is parsed by the real parser under 10 option/handler combinations (the deepest level under 2) with a handler serving a cyclic include graph; the parse must return, must not panic and must not ask for more than 1000 files.",
   note="A handler whose Get returns unsupported types is excluded (documented programmer error). Non-termination is decided by an include-count budget and a 60 s per-input watchdog.", ref="7 C12"),
 "C13": dict(level="exploration", engine="pure", technique="exhaustive enumeration of all programs of a grammar up to n statements x 12 (mode,term,app) settings, real parser vs reference evaluator written in Go",
   text="Every well-formed program of the $if/$else/$endif/set keymap/set var/bind/macro/comment/$include grammar with at most n statements and nesting <= 3 is parsed under each of 12 settings into a fresh Config, and Binds and Vars are compared with a 40-line reference evaluator (a directive is active iff every enclosing branch is the taken one). A second evaluator modelling exactly the known defect recognises that finding narrowly.",
   note="Trusts the reference evaluator; term= compared on exact names; included files contain no binds/keymap directives.", ref="7 C13"),
 "C19": dict(level="exploration", engine="pure", technique="exhaustive enumeration of key sequences (all length-1 and length-2 over 262 runes, length-3 over 28 special runes, all default binds) through Escape/EscapeMacro/Unescape",
   text="Unescape(Escape(s)) == s and Unescape(EscapeMacro(s)) == s for every enumerated sequence and every key sequence of every default keymap.",
   note="Printable Unicode beyond U+00FF represented by six runes; dump round trip through the real dump commands is part (c), see DESIGN.md.", ref="7 C19"),
 "C20": dict(level="model_checking", engine="sched", technique="stateless model checking of the implementation: exhaustive preemption-bounded (iterative context bounding) enumeration of thread schedules and disturbance delivery points under a cooperative scheduler compiled into the library through a generated source overlay",
   text="For 6 key scripts (plain edit, completion menu cycling, vi pending-key command, numeric-argument hint, two-line buffer, wrapped line) x 4 disturbance budgets (1 SIGWINCH with a width change, 1 concurrent Shell.Printf, 2 SIGWINCH, SIGWINCH + Printf), ALL schedules of the real Readline loop, the real resize watcher goroutine and the real Printf with at most P deviations (quick P=1, thorough P=2; a disturbance delivery or a switch away from a runnable thread costs 1; free choices when the running thread blocks are always explored) are executed. Every sync.Mutex/RWMutex operation, channel send/receive/select/close, go statement, signal.Notify, terminal write and terminal read of the library is a scheduling point. Oracle per schedule: no panic, no deadlock, no thread left parked after return, (line, err) equal to the undisturbed run, and the C04 screen oracle at the last wait when every disturbance had completed before it.",
   note="Accesses between two scheduling points are atomic in this model (word tearing / memory-model effects are out of scope); the emulated terminal answers cursor queries at once. Violations whose schedule contains an overlap of two unsynchronised activities (main loop work x resize redisplay x Printf) are the recorded known findings (root cause: the library has no mutual exclusion there); any violation without overlap, or with a new symptom, is reported.", ref="7 C20"),
}
na = {
}
ALL = ["C%02d" % i for i in range(1, 21)]
def build():
    for k in ALL:
        if k not in checks and k not in na:
            na[k] = "not claimed yet: its check is still under construction in this tree (see DESIGN.md section 7 for the planned bounded-exhaustive formulation)"
    m = {
     "version": 1,
     "setup_cmd": "./setup.sh",
     "hooks": {
       "guard": "verif",
       "enable": "go build -tags verif (module /verif with `replace github.com/reeflective/readline => /repo`); the only hook is /repo/verif_hooks.go (VerifSetStdin); the schedule engine (C20) additionally builds with tags `verif verifsched` through a generated -overlay (build_b.sh: cmd/instrument rewrites copies of the repository files under /verif/.scratch/overlay and adds the virtual packages internal/verifrt, internal/vsync, internal/verifvt and verif_sched_bridge.go); nothing of it is committed to /repo",
       "baseline_off_cmd": "cd /repo && GOFLAGS=-mod=mod GOPROXY=off go test -vet=off -count=1 ./...",
       "source_commits": subprocess.run(["git","-C","/repo","log","--format=%h","--grep=^verif:"],capture_output=True,text=True).stdout.split(),
       "add_only": True,
     },
     "engines": [
       {"name":"pure","path":"checks","serves_properties":sorted(k for k in checks if checks[k].get("engine")=="pure"),"kind_free_text":"in-process exhaustive enumerators calling the real parser / escaper / file history, with reference models in Go"},
       {"name":"sched","path":"rt, cmd/instrument, checks/c20.go","serves_properties":sorted(k for k in checks if checks[k].get("engine")=="sched"),"kind_free_text":"schedule explorer: cmd/instrument rewrites the library's synchronisation, channel, goroutine, signal and terminal I/O operations into calls of a cooperative scheduler (rt/verifrt, rt/vsync) supplied through go build -overlay (build_b.sh -> bin/vcheck-b); the check enumerates schedules by replaying decision prefixes (iterative preemption bounding)"},
       {"name":"session","path":"internal/harness","serves_properties":sorted(k for k in checks if checks[k].get("engine","session")=="session"),"kind_free_text":"real library over a harness-owned pty; gated key reader; VT emulator answers cursor queries; explicit-state BFS / bounded products / deviation enumeration over executions"},
     ],
     "checks": [],
     "not_applicable": [{"property_id":k,"reason":v} for k,v in sorted(na.items())],
     "notes": "All checks: ./run.sh <ID> <tier> rebuilds bin/vcheck from /verif and /repo's working tree (build tag verif) and runs it; exit 0 = held, 1 = VIOLATION line printed, 2 = infrastructure error. known_findings.json lists fixed and known findings.",
    }
    for k in sorted(checks):
        c = checks[k]
        m["checks"].append({
          "property_id": k,
          "quick_cmd": f"./run.sh {k} quick",
          "thorough_cmd": f"./run.sh {k} thorough",
          "evidence_file": f"/verif/evidence/{k}.json",
          "replay_cmd_template": "./run.sh replay {path}",
          "engine": c.get("engine","session"),
          "level_claimed": {"category": c["level"], "text": c["text"], "design_ref": c["ref"]},
          "level_note": c["note"],
          "technique": c["technique"],
        })
    json.dump(m, open("MANIFEST.json","w"), indent=1)
    print("checks:", len(m["checks"]), "n/a:", len(m["not_applicable"]))
if __name__ == "__main__":
    build()
